"""./check selftest: the binding self-test of DESIGN 3.2.

For every trace specification a handful of real traces is recorded from the current tree and must be accepted; then one
recorded field is corrupted (a delivery, a retained length, an event's old value, a completion instant, ...) and, separately,
one record is removed, and each corrupted trace must be REJECTED.  This shows that the trace specifications constrain more
than the length of a trace.  Exit 0 if every expectation holds, 2 otherwise (it is a test of the machinery, not of the repository).
"""
from __future__ import annotations

import copy
import json
from typing import Any, Callable, List, Tuple

from . import tlc
from .common import rng


def expect(label: str, module: str, cfg: str, good: List[Any], corruptions: List[Tuple[str, Callable[[Any], Any]]]) -> List[str]:
    problems = []
    rej, _, _ = tlc.validate_traces(module, cfg, good, shards=4)
    if rej:
        problems.append(f"{label}: {len(rej)} unmodified traces rejected")
        return problems
    for name, fn in corruptions:
        bad = []
        for t in good:
            c = fn(copy.deepcopy(t))
            if c is not None:
                bad.append(c)
        if not bad:
            problems.append(f"{label}/{name}: corruption not applicable to any trace")
            continue
        rej, _, _ = tlc.validate_traces(module, cfg, bad, shards=4)
        if len(rej) != len(bad):
            problems.append(f"{label}/{name}: only {len(rej)} of {len(bad)} corrupted traces rejected")
        else:
            print(f"selftest {label}/{name}: {len(bad)} corrupted traces rejected")
    return problems


def run() -> int:
    r = rng("selftest")
    problems: List[str] = []

    # ---- Router
    from .checks import router as R
    good = []
    for _ in range(6):
        accept, stim = R.random_history(r, 40)
        good.append(R.run_history(accept, R.TRACE_CLIENTS, R.TRACE_NAMES, stim))

    def drop_delivery(t):
        for e in t["ev"]:
            if any(x[0] == "cli" for x in e["dlv"]):
                e["dlv"].remove(next(x for x in e["dlv"] if x[0] == "cli"))
                return t
        return None

    def drop_event(t):
        for i, e in enumerate(t["ev"]):
            if e["op"] == "regcli":
                del t["ev"][i]
                return t
        return None
    def drop_nested(t):
        for e in t["ev"]:
            for sb in e.get("subs", []):
                if any(x[0] == "cli" for x in sb["dlv"]):
                    sb["dlv"].remove(next(x for x in sb["dlv"] if x[0] == "cli"))
                    return t
        return None
    problems += expect("Router", "TraceRouter", "TraceRouter_C05.cfg", good, [("delivery removed", drop_delivery), ("registration record removed", drop_event),
                                                                              ("delivery of a nested (re-entrant) message removed", drop_nested)])

    # ---- Buffer (mini alphabet) and Framing
    from .checks import buffer as B
    B._register_mini()
    good = [B.run_buffer(s, cuts, t) for s, cuts, t in [("<k/><k>x</k>", [3, 7], 8), ("x<k/>n<k><c/></k>", [2], -1), ("<k/<k/><k/>", [5], 4), ("<u/><k>x</k>x", [], 12)]]
    slim = [{k: t[k] for k in ("stream", "thr", "ev")} for t in good]

    def bump_dlen(t):
        t["ev"][-1]["dlen"] += 1
        return t

    def drop_delivered(t):
        for e in t["ev"]:
            if e["dl"]:
                e["dl"].pop()
                return t
        return None
    problems += expect("Buffer", "TraceBuffer", "TraceBuffer.cfg", slim, [("retained length +1", bump_dlen), ("delivered message removed", drop_delivered)])

    from .checks import framing as F
    objs = F.corpus()
    good = []
    for i in range(4):
        pieces = [("msg", F.spell(objs[i * 3].to_xml(), i * 7)), ("junk", "noise "), ("msg", F.spell(objs[i * 3 + 1].to_xml(), i))]
        n = sum(len(x) for _, x in pieces)
        good.append(F.run_stream(pieces, [n // 3, n // 2], 2048))
    slim = [{k: t[k] for k in ("thr", "clean", "msgs", "ev")} for t in good]

    def swap_ids(t):
        ids = [i for e in t["ev"] for i in e["ids"]]
        if len(ids) < 2:
            return None
        for e in t["ev"]:
            e["ids"] = [3 - i if i in (1, 2) else i for i in e["ids"]]
        return t

    def lose_message(t):
        for e in t["ev"]:
            if e["ids"]:
                e["ids"].pop()
                e["genuine"].pop()
                return t
        return None
    problems += expect("Framing", "TraceFraming", "TraceFraming.cfg", slim, [("delivery order swapped", swap_ids), ("delivery removed", lose_message)])

    # ---- Transport
    from .checks import transport as T
    good = [T.random_session(r, 25) for _ in range(5)]

    def wire_swap(t):
        for e in t:
            for c in e["wire"]:
                if len(e["wire"][c]) >= 2:
                    e["wire"][c][0], e["wire"][c][1] = e["wire"][c][1], e["wire"][c][0]
                    return t
        return None

    def forget_close(t):
        for e in t:
            if any(e["closed"].values()):
                for c in e["closed"]:
                    e["closed"][c] = 0
                return t
        return None
    problems += expect("Transport", "TraceTransport", "TraceTransport.cfg", good, [("two written messages swapped", wire_swap), ("closed flag cleared", forget_close)])
    bursts = T.explore_bursts("tcp", 1, 3, 4, r, allow_fail=False)
    problems += expect("TransportContract", "TraceTransportContract", "TraceTransportContract.cfg", bursts, [("two written messages swapped", wire_swap)])

    # ---- WaitForEvent
    from .checks import waitfor as W
    good = []
    for a, to, p in [([{"t": 3, "m": 1}], 8, (2, 2)), ([{"t": 1, "m": 0}, {"t": 5, "m": 1}, {"t": 5, "m": 1}], W.NOT, (W.NOT, W.NOT)), ([], 4, (2, 2))]:
        good += W.run_wait(["check-value"], [a], [to], [p])
    slim = [{k: t[k] for k in ("sched", "timeout", "poll", "obs")} for t in good]

    def later(t):
        if t["obs"]["doneAt"] < 0:
            return None
        t["obs"]["doneAt"] += 2
        return t

    def extra_poll(t):
        t["obs"]["polls"] = sorted(set(t["obs"]["polls"] + [10]))
        return t
    problems += expect("WaitForEvent", "TraceWaitForEvent", "TraceWaitForEvent.cfg", slim, [("completion instant +1 step", later), ("extra polling instant", extra_poll)])

    # ---- Device
    from .checks import device as D
    good = []
    for _ in range(4):
        dep = D.random_dep(r)
        good.append(D.run_trace(dep, lambda w, dep=dep: D.random_ops(r, dep, 15, w)))

    def lose_pub(t):
        for e in t["ev"]:
            if e["obs"]["pub"]:
                e["obs"]["pub"].pop()
                return t
        return None

    def flip_value(t):
        for e in t["ev"]:
            for row in e["obs"]["val"]:
                for i, x in enumerate(row):
                    if x in ("On", "Off"):
                        row[i] = "Off" if x == "On" else "On"
                        return t
        return None
    problems += expect("Device", "TraceDevice", "TraceDevice.cfg", good, [("published message removed", lose_pub), ("one switch value flipped", flip_value)])

    # ---- ClientMirror
    from .checks import clientmirror as CM
    good = [CM.random_trace(r, 25) for _ in range(4)]

    def stale_old(t):
        for e in t:
            for x in e["obs"]["evs"]:
                if x["ty"] == "Value" and x["old"] != "none":
                    x["old"] = "stale"
                    return t
        return None

    def lose_event(t):
        for e in t:
            if e["obs"]["evs"]:
                e["obs"]["evs"].pop()
                return t
        return None
    problems += expect("ClientMirror", "TraceClientMirror", "TraceClientMirror_C16.cfg", good, [("event old value corrupted", stale_old), ("event removed", lose_event)])

    good = [t for t in (CM.write_trace(r, 30) for _ in range(6)) if any(e["obs"]["sent"] and e["obs"]["sent"][0]["els"] for e in t)]

    def lose_member(t):
        for e in t:
            if e["obs"]["sent"] and e["obs"]["sent"][0]["els"]:
                e["obs"]["sent"][0]["els"].pop()
                return t
        return None

    def extra_member(t):
        for e in t:
            if e["obs"]["sent"]:
                e["obs"]["sent"][0]["els"].append(["ghost", "v"])
                return t
        return None
    problems += expect("ClientWrite", "TraceClientMirror", "TraceClientMirror_C06.cfg", good, [("submitted member removed", lose_member), ("member not assigned is sent", extra_member)])

    # ---- System
    from .checks import syscheck as S
    good = [[S.slim(e) for e in S.c01_trace(r, "quick")] for _ in range(3)]

    def stale_view(t):
        for e in t:
            for w in e["views"]:
                for vec in w["view"]:
                    if vec["kind"] == "text" and vec["els"]:
                        vec["els"][0][1] = "stale"
                        return t
        return None

    def extra_vector(t):
        e = t[-1]
        if not e["views"] or e["views"][0]["kind"] != "net":
            return None
        e["views"][0]["view"].append({"dev": "GHOST", "name": "X", "kind": "text", "st": "Ok", "label": "l", "group": "g", "els": []})
        return t
    problems += expect("System", "TraceSystem", "TraceSystem_C01.cfg", good, [("client value made stale", stale_view), ("extra property in the view", extra_vector)])

    for p in problems:
        print("SELFTEST-PROBLEM", p)
    print("selftest:", "ok" if not problems else f"{len(problems)} problems")
    return 0 if not problems else 2
