"""Fake streams and a stepping event loop: exactly the choice points of Transport.tla, nothing else.

 * StepLoop: a stock asyncio SelectorEventLoop run one iteration at a time (`tick()`), so ready callbacks run
   in asyncio's own FIFO order; optional virtual clock (time jumps to the next timer when idle).
 * FakeWriter: write() appends to the sink at call time; drain() returns a future the explorer completes or fails;
   close() sets a flag.
 * FakeTTY stdin / stdout: readline() / write() / flush() return futures; the sink append of a write happens when
   the explorer executes the job (the thread pool of aiofiles).
 * hand-fed asyncio.StreamReader for TCP input.
"""
from __future__ import annotations

import asyncio
from .watchdog import Stalled, bounded
import heapq
import selectors
from typing import Any, Callable, List, Optional, Tuple


class _NullSelector(selectors.BaseSelector):
    """No file descriptors are ever used; select() must not block."""

    def __init__(self):
        self._map = {}

    def register(self, fileobj, events, data=None):
        key = selectors.SelectorKey(fileobj, 0, events, data)
        self._map[fileobj] = key
        return key

    def unregister(self, fileobj):
        return self._map.pop(fileobj)

    def select(self, timeout=None):
        return []

    def get_map(self):
        return self._map


class StepLoop(asyncio.SelectorEventLoop):
    """Event loop stepped by the harness; with virtual=True time() is a virtual clock."""

    def __init__(self, virtual: bool = True):
        super().__init__(selector=selectors.SelectSelector())
        self._vt = 0.0
        self._virtual = virtual
        self.unhandled: List[dict] = []
        self.set_exception_handler(lambda loop, ctx: self.unhandled.append(ctx))

    def time(self):
        return self._vt if self._virtual else super().time()

    def tick(self) -> None:
        """Run exactly one iteration of the loop (the handles ready now, plus timers that are due)."""
        with bounded(120, "one iteration of the event loop (library callbacks and tasks)") as st:
            self.call_soon(self.stop)
            self.run_forever()
        if st.fired:            # (the interruption may have been absorbed by a task: report it all the same)
            raise Stalled(st.fired)

    def has_ready(self) -> bool:
        return bool(self._ready)

    def next_timer(self) -> Optional[float]:
        while self._scheduled and self._scheduled[0]._cancelled:
            heapq.heappop(self._scheduled)
        return self._scheduled[0]._when if self._scheduled else None

    def settle(self, max_ticks: int = 10000) -> int:
        """Tick until nothing is ready (timers are not advanced)."""
        n = 0
        while self._ready and n < max_ticks:
            self.tick()
            n += 1
        return n

    def advance_to(self, t: float) -> None:
        """Virtual time: run everything due up to and including instant t, in time order."""
        while True:
            self.settle()
            nt = self.next_timer()
            if nt is None or nt > t:
                break
            self._vt = max(self._vt, nt)
            self.tick()
        self._vt = max(self._vt, t)
        self.settle()


class Pending:
    """An awaitable handed out by a fake; the explorer completes or fails it."""

    def __init__(self, loop: asyncio.AbstractEventLoop, owner: Any, what: str, action: Optional[Callable[[], None]] = None):
        self.fut = loop.create_future()
        self.owner = owner
        self.what = what
        self.action = action

    def _retire(self):
        lst = getattr(self.owner, "pending", None)
        if lst is not None and self in lst:
            lst.remove(self)

    def complete(self, result=None):
        self._retire()
        if self.action:
            self.action()
        if not self.fut.done():
            self.fut.set_result(result)

    def fail(self, exc: BaseException):
        self._retire()
        if not self.fut.done():
            self.fut.set_exception(exc)


class FakeWriter:
    """Stands in for asyncio.StreamWriter."""

    def __init__(self, loop, name: str = ""):
        self.loop = loop
        self.name = name
        self.sink = bytearray()
        self.writes: List[bytes] = []
        self.pending: List[Pending] = []
        self.closed = False
        self.auto_drain = False

    def write(self, data: bytes):
        self.writes.append(bytes(data))
        self.sink += data

    async def drain(self):
        if self.auto_drain:
            return
        p = Pending(self.loop, self, "drain")
        self.pending.append(p)
        try:
            await p.fut
        finally:
            if p in self.pending:
                self.pending.remove(p)

    def close(self):
        self.closed = True

    def is_closing(self):
        # asyncio: a transport torn down by an error (_fatal_error -> _force_close) is "closing" although nobody called
        # close(); a clean EOF from the peer leaves it open (StreamReaderProtocol.eof_received keeps the transport)
        return self.closed or getattr(self, "lost", None) is not None

    def connection_lost(self, exc):
        """the transport ended with an error: asyncio re-raises it from wait_closed()"""
        self.lost = exc

    async def wait_closed(self):
        if getattr(self, "lost", None) is not None:
            raise self.lost
        return

    def get_extra_info(self, name, default=None):
        return default


class FakeStdout:
    """Stands in for aiofiles' stdout: write/flush are thread-pool jobs executed when the explorer says so."""

    def __init__(self, loop):
        self.loop = loop
        self.sink: List[str] = []
        self.pending: List[Pending] = []

    def _job(self, what: str, action):
        p = Pending(self.loop, self, what, action)
        self.pending.append(p)

        async def wait():
            try:
                return await p.fut
            finally:
                if p in self.pending:
                    self.pending.remove(p)
        return wait()

    def write(self, data: str):
        return self._job("write", lambda: self.sink.append(data))

    def flush(self):
        return self._job("flush", None)


class FakeStdin:
    """Stands in for aiofiles' stdin: readline() resolves when the explorer has supplied a line ('' = EOF)."""

    def __init__(self, loop):
        self.loop = loop
        self.lines: List[Any] = []
        self.waiter: Optional[asyncio.Future] = None

    def feed(self, line):
        self.lines.append(line)
        if self.waiter is not None and not self.waiter.done():
            self.waiter.set_result(None)

    async def readline(self):
        while not self.lines:
            self.waiter = self.loop.create_future()
            await self.waiter
            self.waiter = None
        item = self.lines.pop(0)
        if isinstance(item, BaseException):
            raise item
        return item


def split_messages(text: str, allow_partial_tail: bool = False) -> List[str]:
    """Independent splitter of an output stream into top-level XML elements (used to read what a connection wrote).
    Returns the list of element texts; raises ValueError if the stream is not a clean sequence of whole elements."""
    import xml.etree.ElementTree as ET
    out = []
    rest = text
    while rest.strip():
        rest = rest.lstrip()
        if rest.startswith("<?xml") or (allow_partial_tail and "<?xml".startswith(rest)):
            if "?>" not in rest:
                if allow_partial_tail:
                    return out          # a declaration that is still being written
                raise ValueError("incomplete declaration at end of stream")
            rest = rest[rest.index("?>") + 2:]
            continue
        # find the end of the first element by incremental parsing
        end = -1
        depth = 0
        i = 0
        n = len(rest)
        if not rest.startswith("<"):
            raise ValueError("garbage between elements: %r" % rest[:40])
        while i < n:
            if rest[i] == "<":
                if ">" not in rest[i:]:
                    break
                j = rest.index(">", i)
                tag = rest[i:j + 1]
                if tag.startswith("</"):
                    depth -= 1
                elif tag.endswith("/>"):
                    pass
                elif tag.startswith("<?") or tag.startswith("<!"):
                    pass
                else:
                    depth += 1
                i = j + 1
                if depth == 0:
                    end = i
                    break
            else:
                i += 1
        if end < 0:
            if allow_partial_tail:
                return out              # the last message is still being written (a message may be handed over in several writes)
            raise ValueError("incomplete element at end of stream: %r" % rest[:60])
        el = rest[:end]
        ET.fromstring(el)
        out.append(el)
        rest = rest[end:]
    return out
