"""./check setup: parse every specification module with SANY and run a 2-second TLC smoke test."""
import glob
import os

from . import tlc


def run() -> int:
    mods = sorted(os.path.basename(p)[:-4] for p in glob.glob(os.path.join(tlc.SPEC_DIR, "*.tla")))
    for m in mods:
        tlc.sany(m)
    print(f"setup: {len(mods)} modules parsed")
    res = tlc.run_tlc("MC_Router", "MC_Router_asis.cfg", timeout=1800)
    if res.violated != "P_FanOut":
        raise tlc.MachineryError("smoke test failed: " + res.stdout[-2000:])
    print("setup: TLC smoke test ok")
    return 0
