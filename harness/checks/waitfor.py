"""C17: WaitForEvent.tla bound to BaseClient.waitforevent on a virtual-clock event loop.

Every schedule of the bounded grid (arrival instants of matching / non-matching events on the half grid, timeout on
the grid or none, polling off or delay/interval on the grid) is executed on the real coroutine for every condition kind
(expect / initial / check) and event kind (value / state), alone and with a second concurrent wait; outcome,
completion instant, polling instants and callback registration are validated by TraceWaitForEvent.tla.
"""
from __future__ import annotations

import asyncio
import itertools
import json
from typing import Any, Dict, List, Optional, Tuple

from .. import tlc
from ..common import Verdict, rng, use_repo
from ..fakes import StepLoop

use_repo()

from indi import message as M  # noqa: E402
from indi.client import events as CE  # noqa: E402
from indi.client.client import BaseClient  # noqa: E402
from indi.message import def_parts, one_parts  # noqa: E402

HALF = 0.5
HORIZON = 12          # half steps
NOT = -1
ELEMS = ["e1", "e2", "e3", "e4", "e5"]
STATES_M = ["Busy", "Alert"]
STATES_N = ["Ok", "Idle"]


class RecClient(BaseClient):
    def __init__(self, loop):
        super().__init__()
        self.loop = loop
        self.sent: List[Tuple[float, Any]] = []

    def send_message(self, msg):
        self.sent.append((self.loop.time(), msg))


class Cond:
    """How a wait condition is realised: kwargs for waitforevent and the messages that make an arrival (non-)matching."""

    def __init__(self, kind: str):
        self.kind = kind
        self.n_m = 0
        self.n_n = 0
        self.cur_state = "Ok"

    def kwargs(self) -> dict:
        k = self.kind
        if k == "check-value":
            return dict(device="D", vector="V", event_type=CE.ValueUpdate, check=lambda e: str(e.new_value).startswith("M"))
        if k == "initial-cleared":
            # like initial-value, but the awaited change is the element being CLEARED (an empty element: the new value is None)
            return dict(device="D", vector="V", element="e1", event_type=CE.ValueUpdate, initial="init")
        if k == "initial-value":
            return dict(device="D", vector="V", element="e1", event_type=CE.ValueUpdate, initial="init")
        if k == "expect-value":
            return dict(device="D", vector="V", event_type=CE.ValueUpdate, expect="M")
        if k == "check-state":
            return dict(device="D", vector="V", event_type=CE.StateUpdate, check=lambda e: e.new_state in STATES_M)
        if k == "expect-state":
            return dict(device="D", event_type=CE.StateUpdate, expect="Busy")
        if k == "initial-state":
            return dict(device="D", vector="V", event_type=CE.StateUpdate, initial="Ok")
        raise ValueError(k)


def set_text(elem: str, value: str, state: str, vec: str = "V"):
    return M.SetTextVector(device="D", name=vec, state=state, children=[one_parts.OneText(name=elem, value=value)])


class Scenario:
    """State of the simulated server side: produces, for each arrival and each waiter, a message whose events realise the
    requested match flags.  With two waiters the first watches vector V, the second vector W (independent conditions)."""

    def __init__(self, conds: List[Cond], shared: bool = False):
        self.conds = conds if not shared else conds[:1]
        self.vecs = ["V", "W"][: len(conds)] if not shared else ["V"]
        self.shared = shared
        self.state = {v: "Ok" for v in self.vecs}
        self.count = 0
        self.expect_used = {v: 0 for v in self.vecs}
        self.cleared: Dict[str, bool] = {}

    def messages(self, flags: List[bool]) -> List[Any]:
        out = []
        self.count += 1
        for cond, vec, m in zip(self.conds, self.vecs, flags):
            k = cond.kind.replace("V", vec)
            st = self.state[vec]
            if cond.kind == "check-value":
                out.append(set_text("e1", ("M" if m else "N") + str(self.count), st, vec))
            elif cond.kind == "initial-value":
                out.append(set_text("e1" if m else "e2", ("M" if m else "N") + str(self.count), st, vec))
            elif cond.kind == "initial-cleared":
                if m:
                    cleared = self.cleared.get(vec, False)
                    self.cleared[vec] = not cleared
                    out.append(set_text("e1", ("M" + str(self.count)) if cleared else None, st, vec))
                else:
                    out.append(set_text("e2", "N" + str(self.count), st, vec))
            elif cond.kind == "expect-value":
                if m:
                    self.expect_used[vec] += 1
                    out.append(set_text(ELEMS[self.expect_used[vec]], "M", st, vec))
                else:
                    out.append(set_text("e1", "N" + str(self.count), st, vec))
            elif cond.kind in ("check-state", "initial-state"):
                pool = STATES_M if m else STATES_N
                if cond.kind == "initial-state" and not m:
                    # a non-matching event for `initial`: a value event (filtered out by the event type)
                    out.append(set_text("e1", "N" + str(self.count), st, vec))
                    continue
                new = [s for s in pool if s != st][0]
                self.state[vec] = new
                out.append(set_text("e1", "v", new, vec))
            elif cond.kind == "expect-state":
                if m:
                    if st == "Busy":        # make it leave Busy silently first is impossible: use Alert->Busy needs two events; skip as non-event
                        out.append(set_text("e1", "x" + str(self.count), st, vec))
                        continue
                    self.state[vec] = "Busy"
                    out.append(set_text("e1", "v", "Busy", vec))
                else:
                    new = [s for s in STATES_N + ["Alert"] if s != st][0]
                    self.state[vec] = new
                    out.append(set_text("e1", "v", new, vec))
        return out


def adapt_flags(kind: str, sched: List[dict]) -> List[dict]:
    """Some realisations cannot express every flag sequence (expect-state cannot match twice in a row: the second Busy is no
    event).  The effective schedule is what the scenario really produced; computed by replaying the realisation rules."""
    if kind != "expect-state":
        return sched
    st = "Ok"
    out = []
    for a in sched:
        if a["m"]:
            if st == "Busy":
                out.append({"t": a["t"], "m": 0})
            else:
                st = "Busy"
                out.append({"t": a["t"], "m": 1})
        else:
            st = [s for s in STATES_N + ["Alert"] if s != st][0]
            out.append({"t": a["t"], "m": 0})
    return out


def run_wait(kinds: List[str], scheds: List[List[dict]], timeouts: List[int], polls: List[Tuple[int, int]], shared: bool = False,
             starts: Optional[List[int]] = None) -> List[dict]:
    """Run len(kinds) waits (same arrival instants, per-waiter match flags); waiter i starts at half-step instant starts[i] (even;
    default 0) and its schedule, timeout, polls and completion instant are relative to its own start.  Returns one trace per waiter."""
    starts = starts or [0] * len(kinds)
    loop = StepLoop(virtual=True)
    asyncio.set_event_loop(loop)
    try:
        client = RecClient(loop)
        conds = [Cond(k) for k in kinds]
        scen = Scenario(conds, shared)
        vec_of = (lambda i: "V") if shared else (lambda i: scen.vecs[i])
        for vec in scen.vecs:
            client.process_message(M.DefTextVector(device="D", name=vec, state="Ok", perm="rw",
                                                   children=[def_parts.DefText(name=e, value="init") for e in ELEMS]))
        # harness-side tap: which arrival raised which event object
        current = {"idx": 0}
        seen: List[Tuple[Any, int]] = []
        client.onevent(callback=lambda e: seen.append((e, current["idx"])))
        n_before = len(client.callbacks)
        results: List[dict] = [{"outcome": "waiting", "ev": 0, "doneAt": NOT} for _ in kinds]

        async def waiter(i: int):
            kw = conds[i].kwargs()
            if kinds[i].endswith("-value") or kinds[i].endswith("-state") or kinds[i].endswith("-cleared"):
                vec = vec_of(i)
                if "vector" in kw:
                    kw["vector"] = vec
            to = timeouts[i]
            d, iv = polls[i]
            try:
                ev = await client.waitforevent(timeout=None if to == NOT else to * HALF, polling_enabled=d != NOT,
                                               polling_delay=(d * HALF if d != NOT else 1.0), polling_interval=(iv * HALF if iv != NOT else 1.0), **kw)
                idx = next((ix for e, ix in seen if e is ev), -1)
                results[i] = {"outcome": "returned", "ev": idx, "doneAt": int(round(loop.time() / HALF)) - starts[i]}
            except Exception as e:
                results[i] = {"outcome": "raised", "ev": 0, "doneAt": int(round(loop.time() / HALF)) - starts[i], "exc": str(e)}
        tasks = []
        for i in range(len(kinds)):
            if starts[i] == 0:
                tasks.append(loop.create_task(waiter(i)))
            else:
                loop.call_at(starts[i] * HALF, lambda i=i: tasks.append(loop.create_task(waiter(i))))
        # arrivals: all arrivals of one instant are processed inside one callback (one read)
        instants: Dict[int, List[int]] = {}
        for j, a in enumerate(scheds[0]):
            instants.setdefault(a["t"], []).append(j)

        def deliver(js: List[int]):
            for j in js:
                current["idx"] = j + 1
                for msg in scen.messages([bool(s[j]["m"]) for s in scheds]):
                    client.process_message(msg)
            current["idx"] = 0
        for t, js in sorted(instants.items()):
            if t <= HORIZON + max(starts):
                loop.call_at(t * HALF, deliver, js)
        loop.advance_to((HORIZON + max(starts)) * HALF)
        # every wait is observed for HORIZON half-steps from its own start
        for i in range(len(kinds)):
            if results[i]["doneAt"] != NOT and results[i]["doneAt"] > HORIZON:
                results[i] = {"outcome": "waiting", "ev": 0, "doneAt": NOT}
        out = []
        for i in range(len(kinds)):
            vec = vec_of(i)
            mine = []
            has_vec = "vector" in conds[i].kwargs()
            for tm, msg in client.sent:
                if not isinstance(msg, M.GetProperties):
                    continue
                name = getattr(msg, "name", None)
                if (has_vec and name == vec) or (not has_vec and name is None):
                    mine.append(int(round(tm / HALF)))
            res = dict(results[i])
            res.pop("exc", None)
            mine = [t - starts[i] for t in mine if starts[i] <= t <= starts[i] + HORIZON]
            if shared or len(set(starts)) > 1:
                # several waits poll the same property: a poll after this wait's completion belongs to another wait
                mine = [t for t in mine if res["doneAt"] == NOT or t <= res["doneAt"]]
            res["polls"] = sorted(set(mine))
            # registration: callbacks beyond the harness tap that belong to still-waiting waits
            res["registered"] = 1 if results[i]["outcome"] == "waiting" else 0
            res["_ncb"] = len(client.callbacks) - n_before
            rel = [{"t": a["t"] - starts[i], "m": a["m"]} for a in adapt_flags(kinds[i], scheds[i]) if starts[i] < a["t"] <= starts[i] + HORIZON + 1]
            out.append({"sched": rel, "timeout": timeouts[i], "poll": list(polls[i]), "obs": res, "kind": kinds[i]})
        # leftover callbacks must be exactly the waits still pending
        pending = sum(1 for r in results if r["outcome"] == "waiting")
        if len(client.callbacks) - n_before != pending:
            for o in out:
                o["obs"]["registered"] = 1 if o["obs"]["outcome"] != "waiting" else 0      # force a rejection: callback leak / loss
        for o in out:
            o["obs"].pop("_ncb", None)
        return out
    finally:
        for t in asyncio.all_tasks(loop):
            t.cancel()
        loop.settle(50)
        loop.close()
        asyncio.set_event_loop(None)


def schedules(r, tier: str):
    odd = [1, 3, 5, 7, 9, 11, 13]
    evens = [NOT, 2, 4, 6, 8, 10, 14]
    pollopts = [(NOT, NOT), (2, 2), (2, 4), (4, 2), (6, 4)]
    arrs: List[List[dict]] = [[]]
    for n in (1, 2, 3):
        for ts in itertools.combinations_with_replacement(odd if tier == "thorough" else odd[:5], n):
            for ms in itertools.product([0, 1], repeat=n):
                arrs.append([{"t": t, "m": m} for t, m in zip(ts, ms)])
    if tier == "quick":
        arrs = arrs[:1] + r.sample(arrs[1:], 260)
    for a in arrs:
        opts = [(to, p) for to in evens for p in pollopts]
        for to, p in (opts if tier == "thorough" else r.sample(opts, 5)):
            yield a, to, p


KINDS = ["check-value", "initial-value", "initial-cleared", "expect-value", "check-state", "expect-state", "initial-state"]


def run(prop: str, tier: str) -> int:
    v = Verdict(prop, tier)
    r = rng("waitfor")
    v.rule = ("case = one wait (schedule of arrivals x timeout x polling x condition kind, alone or beside a second wait) executed on the real "
              "coroutine under virtual time; non-trivial = at least one arrival or a timeout; distinct = distinct parameter tuples")
    v.assumptions = ["virtual clock: StepLoop.time() jumps to the next timer; arrivals sharing an instant are injected from one callback",
                     "exact ties between an arrival and a timer are outside the statement (arrivals on the half grid)"]
    cfg = "MC_WaitForEvent_quick.cfg" if tier == "quick" else "MC_WaitForEvent_thorough.cfg"
    res = tlc.require_ok(tlc.run_tlc("MC_WaitForEvent", cfg, timeout=7200, heap="12g"), cfg)
    v.add_tlc(res, cfg)
    if res.violated:
        v.violation(f"TLC: {res.violated} violated in the waitforevent model", {"kind": "tlc", "tail": res.stdout[-3000:]})
    a = tlc.require_ok(tlc.run_tlc("MC_WaitForEvent", "MC_WaitForEvent_asis.cfg", timeout=2400), "waitforevent as-is self-test")
    v.notes["asis_selftest"] = {"AsIsLastWins=TRUE violates": a.violated}
    if a.violated != "Outcome":
        raise tlc.MachineryError(f"self-test: last-match-wins should violate Outcome, got {a.violated}")
    hit = tlc.probe_reachable("MC_WaitForEvent", "MC_WaitForEvent_quick.cfg",
                              ["ProbeInv_TwoMatchesSameInstant", "ProbeInv_TimeoutWins", "ProbeInv_PollThenMatch"])
    v.notes["reachability_probes_hit"] = hit
    if not all(hit.values()):
        raise tlc.MachineryError(f"reachability probes not all hit: {hit}")
    v.phase("model_check")
    traces: List[dict] = []
    for a, to, p in schedules(r, tier):
        kind = r.choice(KINDS)
        traces += run_wait([kind], [a], [to], [p])
        if r.random() < 0.5:
            # a second, concurrent wait with its own condition, match flags, timeout and polling
            k2 = r.choice(["check-value", "initial-value", "check-state"])
            a2 = [{"t": x["t"], "m": r.choice([0, 1])} for x in a]
            to2 = r.choice([NOT, 2, 4, 6, 8, 10])
            p2 = r.choice([(NOT, NOT), (2, 2), (4, 2)])
            traces += run_wait([r.choice(["check-value", "initial-value", "check-state"]), k2], [a, a2], [to, to2], [p, p2])
        if r.random() < 0.5:
            # two waits with the SAME condition on the same property (overlapping filters): both must see the same first match
            k3 = r.choice(["check-value", "initial-value", "check-state", "expect-value"])
            to3 = r.choice([NOT, 4, 8, 10])
            traces += run_wait([k3, k3], [a, a], [to, to3], [(NOT, NOT), (NOT, NOT)], shared=True)
        if r.random() < 0.35:
            # the same property polled by two waits with the same polling parameters but different timeouts: each keeps polling until IT completes
            k4 = r.choice(["check-value", "initial-value", "check-state"])
            pp = r.choice([(2, 2), (2, 4), (4, 2)])
            traces += run_wait([k4, k4], [a, a], [r.choice([4, 6]), r.choice([NOT, 10])], [pp, pp], shared=True)
        if r.random() < 0.35:
            # back to back: a second wait on the same property starts after the first one completed (its poller may still be asleep)
            k5 = r.choice(["check-value", "initial-value"])
            late = [x for x in a if x["t"] > 4]
            traces += run_wait([k5, k5], [late, late], [2, r.choice([NOT, 6])], [(2, 6), (2, 2)], shared=True, starts=[0, 4])
    for t in traces:
        v.evaluations += 1
        v.count_action("wait:" + t["kind"] + ":" + t["obs"]["outcome"])
        if t["sched"] or t["timeout"] != NOT:
            v.nontrivial((json.dumps(t["sched"]), t["timeout"], tuple(t["poll"]), t["kind"]))
    v.sample(traces[len(traces) // 2])
    v.phase("run_real_waits")
    slim = [{k: t[k] for k in ("sched", "timeout", "poll", "obs")} for t in traces]
    rej, gen, dist = tlc.validate_traces("TraceWaitForEvent", "TraceWaitForEvent.cfg", slim)
    v.traces_validated = len(traces) - len(rej)
    v.notes["trace_validation"] = {"traces": len(traces), "rejected": len(rej), "tlc_states": dist}
    for rj in rej[:25]:
        t = traces[rj.index]
        v.violation(f"waitforevent run not allowed by WaitForEvent.tla: condition {t['kind']} schedule {t['sched']} timeout {t['timeout']} "
                    f"poll {t['poll']} (half-step instants) observed {t['obs']}", {"kind": "waitfor", "trace": t})
    if len(rej) > 25:
        v.violations.extend(["(more)"] * (len(rej) - 25))
    v.phase("trace_validation")
    return v.finish()


def replay(prop: str, path: str) -> int:
    t = json.load(open(path))["replay"]["trace"]
    out = run_wait([t["kind"]], [t["sched"]], [t["timeout"]], [tuple(t["poll"])])
    print("re-executed:", out[0]["obs"])
    rej, _, _ = tlc.validate_traces("TraceWaitForEvent", "TraceWaitForEvent.cfg", [{k: out[0][k] for k in ("sched", "timeout", "poll", "obs")}], shards=1)
    if rej:
        print(f"VIOLATION property={prop} replay={path}")
        return 1
    print("accepted by the specification")
    return 0
