"""C04 / C05: Router.tla model-checked with TLC, bound to indi.routing.Router by trace validation.

 spec -> code : every reachable router state of the bounded model (TLC -dump) is rebuilt in a real
                Router through its public API and a set of messages is sent from it;
 code -> spec : seeded random histories in a larger universe are executed on a real Router;
 both are recorded as traces and validated by TraceRouter.tla (every declarative property is
 evaluated on every recorded step).
"""
from __future__ import annotations

import itertools
import os
import shutil
from typing import Any, Dict, List, Optional, Tuple

from .. import tlc
from ..common import Verdict, rng, use_repo
from ..tlaparse import iter_dump_states

use_repo()

from indi import message as M  # noqa: E402
from indi.device import Driver, Proxy  # noqa: E402
from indi.message import const, def_parts, one_parts  # noqa: E402
from indi.routing import Client as RoutingClient  # noqa: E402
from indi.routing import Router  # noqa: E402

NONAME = "none"
NOSENDER = "nobody"
TRACE_CLIENTS = ["c1", "c2", "c3", "c4", "c5", "c6"]
TRACE_DEVS = ["d1", "d2", "d3", "d4", "d5"]
TRACE_NAMES = ["A", "B", "C", "D", "U", "AB", ""]          # "AB" contains another device name; "" is a name like any other


# ------------------------------------------------------------------ real endpoints (recording)
class RecClient(RoutingClient):
    world: Any = None

    def __init__(self, ident: str, log: list):
        self.ident, self.log = ident, log

    def message_from_device(self, message):
        self.log.append(["cli", self.ident, message])
        if self.world is not None:
            self.world.react(self, message)


def make_device(ident: str, accepts: str, log: list):
    """A real Driver subclass (real `accepts`) or a real Proxy (catch-all) that records deliveries."""
    if accepts == "*":
        class RecProxy(Proxy):
            name = "PROXY_" + ident

            def message_from_client(self, message):
                log.append(["dev", ident, message])
                if getattr(self, "world", None) is not None:
                    self.world.react(self, message)
        dev = RecProxy()
    else:
        class RecDriver(Driver):
            name = accepts

            def message_from_client(self, message):
                log.append(["dev", ident, message])
                if getattr(self, "world", None) is not None:
                    self.world.react(self, message)
        dev = RecDriver()
    dev.ident = ident
    return dev


def _dev(n):
    return None if n == NONAME else n


# kind -> constructor(device name or None, enableBLOB value)
KINDS: Dict[str, Any] = {
    "getProperties": lambda n, v: M.GetProperties(version="1.7", device=_dev(n)),
    "enableBLOB": lambda n, v: M.EnableBLOB(device=_dev(n), value=v),
    "pingReply": lambda n, v: M.PingReply(uid="u1"),
    "pingRequest": lambda n, v: M.PingRequest(uid="u1"),
    "oneLight": lambda n, v: M.OneLight(name="L", value="Ok"),
    "delProperty": lambda n, v: M.DelProperty(device=_dev(n), name="P"),
    "message": lambda n, v: M.Message(device=_dev(n), message="hello"),
    "newTextVector": lambda n, v: M.NewTextVector(device=_dev(n), name="P", children=[one_parts.OneText(name="e", value="x")]),
    "newNumberVector": lambda n, v: M.NewNumberVector(device=_dev(n), name="P", children=[one_parts.OneNumber(name="e", value="1")]),
    "newSwitchVector": lambda n, v: M.NewSwitchVector(device=_dev(n), name="P", children=[one_parts.OneSwitch(name="e", value="On")]),
    "newBLOBVector": lambda n, v: M.NewBLOBVector(device=_dev(n), name="P", children=[one_parts.OneBLOB(name="e", size=0, format="", value=None)]),
    "defTextVector": lambda n, v: M.DefTextVector(device=_dev(n), name="P", state="Ok", perm="rw", children=[def_parts.DefText(name="e", value="x")]),
    "defNumberVector": lambda n, v: M.DefNumberVector(device=_dev(n), name="P", state="Ok", perm="rw", children=[def_parts.DefNumber(name="e", format="%f", min=0, max=0, step=0, value="1")]),
    "defSwitchVector": lambda n, v: M.DefSwitchVector(device=_dev(n), name="P", state="Ok", perm="rw", rule="AnyOfMany", children=[def_parts.DefSwitch(name="e", value="On")]),
    "defLightVector": lambda n, v: M.DefLightVector(device=_dev(n), name="P", state="Ok", children=[def_parts.DefLight(name="e", value="Ok")]),
    "defBLOBVector": lambda n, v: M.DefBLOBVector(device=_dev(n), name="P", state="Ok", perm="ro", children=[def_parts.DefBLOB(name="e")]),
    "setTextVector": lambda n, v: M.SetTextVector(device=_dev(n), name="P", state="Ok", children=[one_parts.OneText(name="e", value="y")]),
    "setNumberVector": lambda n, v: M.SetNumberVector(device=_dev(n), name="P", state="Ok", children=[one_parts.OneNumber(name="e", value="2")]),
    "setSwitchVector": lambda n, v: M.SetSwitchVector(device=_dev(n), name="P", state="Ok", children=[one_parts.OneSwitch(name="e", value="Off")]),
    "setLightVector": lambda n, v: M.SetLightVector(device=_dev(n), name="P", state="Ok", children=[one_parts.OneLight(name="e", value="Busy")]),
    "setBLOBVector": lambda n, v: M.SetBLOBVector(device=_dev(n), name="P", state="Ok", children=[one_parts.OneBLOB(name="e", size=3, format=".x", value="QUJD")]),
}
NO_DEVICE_ATTR = {"pingReply", "pingRequest", "oneLight"}
CLIENT_KINDS = ["getProperties", "enableBLOB", "pingReply", "newTextVector", "newNumberVector",
                "newSwitchVector", "newBLOBVector"]
DEVICE_KINDS = [k for k in KINDS if k not in CLIENT_KINDS] + ["getProperties"]


class World:
    """A real Router with recording endpoints; executes abstract stimuli and records trace events."""

    def __init__(self, accept: Dict[str, str], client_ids: List[str], names: List[str]):
        self.accept = accept
        self.names = names
        self.router = Router()
        self.log: list = []
        self.dev = {d: make_device(d, a, self.log) for d, a in accept.items()}
        self.cli = {c: RecClient(c, self.log) for c in client_ids}
        self.events: List[dict] = []
        self.raised: Optional[str] = None
        for e in list(self.dev.values()) + list(self.cli.values()):
            e.world = self
        self.reactions: Dict[str, Tuple[str, str]] = {}     # endpoint -> (kind, name) it sends when it is handed the message in flight
        self.nested: List[Tuple[str, str, str, Any]] = []

    def react(self, endpoint, message) -> None:
        """an endpoint talks back to the router from inside its callback (one level deep)"""
        if message is not getattr(self, "sent", None):
            return
        rx = self.reactions.get(endpoint.ident)
        if rx is None:
            return
        k2, n2 = rx
        m2 = KINDS[k2](n2, "none")
        self.nested.append((endpoint.ident, k2, n2, m2))
        self.router.process_message(m2, endpoint)

    def _ident(self, obj) -> str:
        return getattr(obj, "ident", "?")

    def project(self) -> dict:
        r = self.router
        pol = []
        for key, table in r.blob_routing.items():
            cid = self._ident(key) if key is not None else NOSENDER
            for n in self.names:
                pol.append([cid, n, table.get(n, "unset")])
            for n in table:
                if n not in self.names:
                    pol.append([cid, str(n), table[n]])
        return {"devs": [self._ident(d) for d in r.devices],
                "clients": [self._ident(c) for c in r.clients], "pol": pol}

    def endpoint(self, ident: str):
        if ident == NOSENDER:
            return None
        return self.dev.get(ident) or self.cli[ident]

    def apply(self, st: dict) -> None:
        op = st["op"]
        del self.log[:]
        ev = dict(st)
        ev["raised"] = ""
        try:
            if op == "regdev":
                self.router.register_device(self.dev[st["d"]])
            elif op == "regcli":
                self.router.register_client(self.cli[st["c"]])
            elif op == "unreg":
                self.router.unregister_client(self.cli[st["c"]])
            elif op == "msg":
                msg = KINDS[st["k"]](st["n"], st["v"])
                self.sent = msg
                self.reactions = {e: (k2, n2) for e, k2, n2 in st.get("react", [])}
                del self.nested[:]
                self.router.process_message(msg, self.endpoint(st["s"]))
            else:
                raise ValueError(op)
        except Exception as e:   # an exception out of the router is itself an observation
            self.raised = f"{type(e).__name__}: {e}"
            ev["raised"] = self.raised
        dl = []
        nested_msgs = {id(m2): i for i, (_, _, _, m2) in enumerate(self.nested)} if op == "msg" else {}
        subs = [{"s": s2, "k": k2, "n": n2, "dlv": []} for s2, k2, n2, _ in self.nested] if op == "msg" else []
        for side, ident, m in self.log:
            if id(m) in nested_msgs:
                subs[nested_msgs[id(m)]]["dlv"].append([side, ident])
            else:
                dl.append([side, ident if (op != "msg" or m is self.sent) else ident + "!othermsg"])
        ev["dlv"] = dl
        if op == "msg":
            ev["subs"] = subs
            self.reactions = {}
        ev.update(self.project())
        self.events.append(ev)

    def trace(self) -> dict:
        return {"accept": self.accept, "ev": self.events}


def run_history(accept, client_ids, names, stimuli) -> dict:
    w = World(accept, client_ids, names)
    for st in stimuli:
        w.apply(st)
        if w.raised:
            break
    return w.trace()


# ------------------------------------------------------------------ stimuli
def msg_stim(s, k, n, v="none") -> dict:
    if k in NO_DEVICE_ATTR:
        n = NONAME
    if k == "enableBLOB" and n == NONAME:
        n = "A"
    return {"op": "msg", "s": s, "k": k, "n": n, "v": v if k == "enableBLOB" else "none"}


def setup_for_state(st: Dict[str, Any]) -> List[dict]:
    """Stimuli that rebuild a dumped model state through the public API."""
    out = [{"op": "regdev", "d": d} for d in st["devs"]]
    out += [{"op": "regcli", "c": c} for c in st["clients"]]
    pol = st["policy"] if isinstance(st["policy"], dict) else {}
    for c in st["clients"]:
        for n, v in sorted(pol.get(c, {}).items()):
            if v != "unset":
                out.append(msg_stim(c, "enableBLOB", n, v))
    return out


def random_history(r, length: int) -> Tuple[Dict[str, str], List[dict]]:
    ndev = r.randint(1, 5)
    ncli = r.randint(1, 6)
    devs = TRACE_DEVS[:ndev]
    clis = TRACE_CLIENTS[:ncli]
    accept = {d: r.choice(["A", "B", "C", "D", "AB", "*"]) for d in TRACE_DEVS}
    stim: List[dict] = []
    registered_c: List[str] = []
    registered_d: List[str] = []
    for _ in range(length):
        x = r.random()
        if x < 0.10 and len(registered_d) < ndev:
            d = r.choice([d for d in devs if d not in registered_d])
            registered_d.append(d)
            stim.append({"op": "regdev", "d": d})
        elif x < 0.22 and len(registered_c) < ncli:
            c = r.choice([c for c in clis if c not in registered_c])
            registered_c.append(c)
            stim.append({"op": "regcli", "c": c})
        elif x < 0.28:
            c = r.choice(clis)
            if c in registered_c:
                registered_c.remove(c)
            stim.append({"op": "unreg", "c": c})
        elif x < 0.48:
            c = r.choice(registered_c or clis)
            stim.append(msg_stim(c, "enableBLOB", r.choice(TRACE_NAMES), r.choice(["Never", "Also", "Only"])))
        else:
            from_dev = r.random() < 0.6
            if from_dev:
                k = r.choice(DEVICE_KINDS + ["setBLOBVector"] * 4)
                s = r.choice((registered_d or devs) + [NOSENDER] + clis[:1])
            else:
                k = r.choice(CLIENT_KINDS)
                s = r.choice((registered_c or clis) + [NOSENDER] + devs[:1])
            n = r.choice(TRACE_NAMES + [NONAME])
            st = msg_stim(s, k, n, r.choice(["Never", "Also", "Only"]))
            if r.random() < 0.35:
                # some endpoints answer from inside their callback: devices with a device message (a driver replying, a snooped
                # driver publishing), clients with a client message or - snooping drivers - with a device message of their own
                rx = []
                for e in r.sample(devs + clis, min(len(devs + clis), r.randint(1, 3))):
                    if e in devs:
                        k2 = r.choice(DEVICE_KINDS + ["setBLOBVector"] * 3)
                    else:
                        k2 = r.choice(["getProperties", "newTextVector", "setBLOBVector", "setNumberVector", "defTextVector", "message"])
                    rx.append([e, k2, NONAME if k2 in NO_DEVICE_ATTR else r.choice(TRACE_NAMES + [NONAME])])
                st["react"] = rx
            stim.append(st)
    return accept, stim


# ------------------------------------------------------------------ the check
def model_check(v: Verdict, tier: str) -> None:
    cfg = "MC_Router_quick.cfg" if tier == "quick" else "MC_Router_thorough.cfg"
    res = tlc.require_ok(tlc.run_tlc("MC_Router", cfg, coverage=False, timeout=7200, heap="12g"), "Router MC")
    v.add_tlc(res, cfg)
    if res.violated:
        v.violation(f"TLC: property {res.violated} violated in Router model ({cfg})",
                    {"kind": "tlc", "cfg": cfg, "tail": res.stdout[-4000:]})
    # anti-vacuity: the unrepaired delivery test must violate FanOut, and the probes must be reachable
    a = tlc.require_ok(tlc.run_tlc("MC_Router", "MC_Router_asis.cfg", timeout=2400), "Router as-is self-test")
    v.notes["asis_selftest"] = {"AsIs=TRUE violates": a.violated}
    if a.violated != "P_FanOut":
        raise tlc.MachineryError(f"self-test: model with AsIs=TRUE should violate P_FanOut, got {a.violated}")
    hit = tlc.probe_reachable("MC_Router", "MC_Router_dump.cfg",
                              ["Probe_BlobToOnly", "Probe_AlsoNonBlob", "Probe_CatchAll"])
    v.notes["reachability_probes_hit"] = hit
    if not all(hit.values()):
        raise tlc.MachineryError(f"reachability probes not all hit: {hit}")


def traces_from_model_states(tier: str, r):
    """Dump the reachable states of the quick model and exercise each through the real router."""
    wd = tlc.scratch_dir("rdump-")
    try:
        dump = os.path.join(wd, "states")
        res = tlc.require_ok(tlc.run_tlc("MC_Router", "MC_Router_dump.cfg", extra=["-dump", dump], workdir=wd,
                                         timeout=1200), "Router dump")
        states = list(iter_dump_states(dump + ".dump"))
    finally:
        shutil.rmtree(wd, ignore_errors=True)
    accept = {"d1": "A", "d2": "B", "d3": "*", "d4": "C", "d5": "D"}
    senders = ["c1", "c2", "d1", "d2", "d3", NOSENDER]
    names = ["A", "B", "U", NONAME]
    all_msgs = [msg_stim(s, k, n) for s in senders for k in KINDS if k != "enableBLOB" for n in names
                if not (k in NO_DEVICE_ATTR and n != NONAME)]
    traces = []
    per_state = 40 if tier == "quick" else len(all_msgs)
    nstates = len(states)
    if tier == "quick" and len(states) > 3000:
        states = r.sample(states, 3000)
    for st in states:
        stim = setup_for_state(st)
        msgs = all_msgs if per_state >= len(all_msgs) else r.sample(all_msgs, per_state)
        # make sure the BLOB kind and one client kind are always present
        msgs = msgs + [msg_stim("d1", "setBLOBVector", "A"), msg_stim("d3", "setBLOBVector", "B"),
                       msg_stim("c1", "newTextVector", "A"), msg_stim("c2", "getProperties", NONAME)]
        traces.append(run_history(accept, TRACE_CLIENTS, TRACE_NAMES, stim + msgs))
        if len(traces) >= (3000 if tier == "quick" else 400):
            yield traces, nstates
            traces = []
    yield traces, nstates


def run(prop: str, tier: str) -> int:
    v = Verdict(prop, tier)
    v.rule = ("case = one recorded step of a real Router history (stimulus + deliveries + projected state); "
              "non-trivial = a message step with at least one delivery or a step that changes registry/policy; "
              "distinct = distinct (pre-state projection, stimulus) pairs")
    v.assumptions = ["recording endpoints implement indi.routing.Client/Device; named devices are real Driver "
                     "subclasses, the catch-all is a real Proxy subclass (real accepts())",
                     "double registration of the same endpoint is outside the property"]
    r = rng("router")
    # a first small batch of histories is validated at once: a router that misroutes shows it immediately, and a defect that
    # makes the full run slow (state leaking between Router instances) is reported instead of timing out
    early = []
    for i in range(60):
        accept, stim = random_history(r, 40)
        early.append(run_history(accept, TRACE_CLIENTS, TRACE_NAMES, stim))
    erej, _, _ = tlc.validate_traces("TraceRouter", f"TraceRouter_{prop}.cfg", early, shards=4)
    if erej:
        for rj in erej[:10]:
            ev = rj.trace["ev"][rj.matched] if rj.matched < len(rj.trace["ev"]) else None
            v.violation(f"real Router step not allowed by Router.tla ({prop} clauses): event #{rj.matched + 1} "
                        f"{({k: ev[k] for k in ev if k not in ('devs', 'clients', 'pol')} if ev else None)}",
                        {"kind": "router-trace", "accept": rj.trace["accept"],
                         "stimuli": [{k: e[k] for k in ("op", "s", "k", "n", "v", "d", "c") if k in e} for e in rj.trace["ev"][: rj.matched + 1]],
                         "rejected_event": ev})
        v.evaluations = sum(len(t["ev"]) for t in early)
        for t in early:
            v.nontrivial(str(t["ev"][:3]))
        v.sample({"accept": early[0]["accept"], "ev": early[0]["ev"][:4]})
        v.states = v.transitions = 1
        v.notes["early_batch_only"] = True
        return v.finish()
    model_check(v, tier)
    v.phase("model_check")
    cfg = f"TraceRouter_{prop}.cfg"
    rej: List[Any] = []
    total = {"traces": 0, "tlc_states": 0}
    last_sample: List[dict] = []

    def consume(batch: List[dict]) -> None:
        """book-keeping and trace validation of one batch (the traces are not kept: the thorough tier produces millions of events)"""
        for t in batch:
            prev = None
            for ev in t["ev"]:
                v.evaluations += 1
                v.count_action(ev["op"] if ev["op"] != "msg" else "msg:" + ev["k"])
                if ev["dlv"] or ev["op"] != "msg" or ev["k"] == "enableBLOB":
                    v.nontrivial((str(prev), ev["op"], ev.get("s"), ev.get("k"), ev.get("n"), ev.get("v"), ev.get("d"), ev.get("c")))
                prev = (tuple(ev["devs"]), tuple(ev["clients"]), tuple(map(tuple, ev["pol"])))
        if batch:
            last_sample[:] = [batch[-1]]
        rj, gen, dist = tlc.validate_traces("TraceRouter", cfg, batch)
        rej.extend(rj)
        total["traces"] += len(batch)
        total["tlc_states"] += dist
    nstates = 0
    nreplayed = 0
    for chunk, nstates in traces_from_model_states(tier, r):
        nreplayed += len(chunk)
        consume(chunk)
    v.phase("replay_model_states")
    v.notes["model_states"] = nstates
    v.notes["model_states_replayed"] = nreplayed
    n_random = 2000 if tier == "quick" else 50000
    batch: List[dict] = []
    for i in range(n_random):
        accept, stim = random_history(r, 60)
        batch.append(run_history(accept, TRACE_CLIENTS, TRACE_NAMES, stim))
        if len(batch) >= 4000:
            consume(batch)
            batch = []
    consume(batch)
    v.sample({"accept": last_sample[0]["accept"], "ev": last_sample[0]["ev"][:6]})
    v.phase("random_histories_and_trace_validation")
    v.traces_validated = total["traces"] - len(rej)
    v.notes["trace_validation"] = {"traces": total["traces"], "rejected": len(rej), "tlc_states": total["tlc_states"]}
    for rj in rej[:50]:
        ev = rj.trace["ev"][rj.matched] if rj.matched < len(rj.trace["ev"]) else None
        what = (f"real Router step not allowed by Router.tla ({prop} clauses): event #{rj.matched + 1} "
                f"{({k: ev[k] for k in ev if k not in ('devs', 'clients', 'pol')} if ev else None)}")
        v.violation(what, {"kind": "router-trace", "accept": rj.trace["accept"],
                           "stimuli": [{k: e[k] for k in ("op", "s", "k", "n", "v", "d", "c") if k in e}
                                       for e in rj.trace["ev"][: rj.matched + 1]],
                           "rejected_event": ev})
    if len(rej) > 50:
        v.violations.extend(["(more)"] * (len(rej) - 50))
    return v.finish()


def replay(prop: str, path: str) -> int:
    import json
    rp = json.load(open(path))["replay"]
    t = run_history(rp["accept"], TRACE_CLIENTS, TRACE_NAMES, rp["stimuli"])
    print("re-executed on the real Router; last event observed:")
    print(json.dumps(t["ev"][-1], indent=1))
    rej, _, _ = tlc.validate_traces("TraceRouter", f"TraceRouter_{prop}.cfg", [t], shards=1)
    if rej:
        print(f"VIOLATION property={prop} replay={path}")
        print(f"  rejected at event #{rej[0].matched + 1}")
        return 1
    print("trace accepted by the specification")
    return 0
