"""C18 / C19: Transport.tla bound to the real connection handlers on fake streams and a stepping event loop.

Real objects: indi.transport.server.tcp.ConnectionHandler (via its handler() coroutine), the TTY ConnectionHandler,
the client-side TCP ConnectionHandler, a real Router and a recording device.  The explorer's actions are exactly
the environment actions of Transport.tla (accept, feed input / EOF / error, device send, client send, complete or
fail an outstanding awaitable, one loop iteration); after every action the real objects are projected and the
trace is validated by TraceTransport.tla, which also evaluates the C18 / C19 predicates on every step.
"""
from __future__ import annotations

import asyncio
import json
import re
from typing import Any, Dict, List, Optional, Tuple

from .. import tlc
from ..common import Verdict, rng, use_repo
from ..fakes import FakeStdin, FakeStdout, FakeWriter, StepLoop, split_messages

use_repo()

from indi import message as M  # noqa: E402
from indi.message import one_parts  # noqa: E402
from indi.routing import Device as RoutingDevice  # noqa: E402
from indi.routing import Router  # noqa: E402
from indi.transport.client import tcp as client_tcp  # noqa: E402
from indi.transport.server import tcp as server_tcp  # noqa: E402
from indi.transport.server import tty as server_tty  # noqa: E402

CONNS = ["a", "b", "c"]
_ID = re.compile(r'(?:message|device|name)="m(\d+)"')


class RecDevice(RoutingDevice):
    def __init__(self):
        self.log: List[Any] = []

    def accepts(self, device):
        return True

    def message_from_client(self, message):
        self.log.append(message)
        if getattr(message, "name", None) == "BOOM":
            raise RuntimeError("device failed while handling a message")


def item_bytes(it: str, ident: int) -> bytes:
    if it == "get":
        return M.GetProperties(version="1.7", device=f"m{ident}").to_string()
    if it == "enable":
        return M.EnableBLOB(device="D", value="Also").to_string()
    if it == "new":
        return M.NewTextVector(device="D", name="T", children=[one_parts.OneText(name="t", value="v")]).to_string()
    if it == "boom":
        return M.NewTextVector(device="D", name="BOOM", children=[one_parts.OneText(name="t", value="v")]).to_string()
    if it == "junk":
        return b"some junk without markup \xff\x00\n"
    if it == "partial":
        return b'<newTextVector device="D" name="T"><oneText name="t">unfinis'
    raise ValueError(it)


class World:
    def __init__(self):
        self.loop = StepLoop(virtual=True)
        asyncio.set_event_loop(self.loop)
        server_tcp.ConnectionHandler.connections = []
        self.router = Router()
        self.dev = RecDevice()
        self.router.register_device(self.dev)
        self.conn: Dict[str, dict] = {}
        self.events: List[dict] = []

    # ---- projection
    def handler_of(self, c: str):
        k = self.conn[c]
        if k["handler"] is None and k["kind"] == "tcp":
            for h in list(server_tcp.ConnectionHandler.connections) + list(self.router.clients):
                if getattr(h, "writer", None) is k["writer"]:
                    k["handler"] = h
        return k["handler"]

    def ident(self, h) -> str:
        for c in self.conn:
            if self.handler_of(c) is h:
                return c
        return "?"

    def wire(self, c: str) -> List[Any]:
        k = self.conn.get(c)
        if not k:
            return []
        text = bytes(k["writer"].sink).decode("latin1") if k["kind"] != "tty" else "".join(k["stdout"].sink)
        try:
            # (a message that is still being written - an implementation may hand it to the stream in several writes - is not on
            #  the stream yet; one that was broken or interleaved never parses, also later)
            els = split_messages(text, allow_partial_tail=True)
        except Exception:
            return [-1]
        out = []
        for el in els:
            m = _ID.search(el)
            out.append(int(m.group(1)) if m else -2)
        return out

    def project(self) -> dict:
        pol = {}
        for c in CONNS:
            h = self.handler_of(c) if c in self.conn else None
            if h is not None and h in self.router.blob_routing:
                pol[c] = self.router.blob_routing[h].get("D", "unset")
            else:
                pol[c] = "gone"
        for key in self.router.blob_routing:
            if self.ident(key) == "?":
                pol["a"] = "LEAK"
        npend = {}
        closed = {}
        for c in CONNS:
            k = self.conn.get(c)
            npend[c] = len((k["stdout"] if k["kind"] == "tty" else k["writer"]).pending) if k else 0
            closed[c] = 1 if (k and k["kind"] != "tty" and k["writer"].closed) else 0
        return {"wire": {c: self.wire(c) for c in CONNS}, "npend": npend,
                "clients": [self.ident(h) for h in self.router.clients], "pol": pol, "closed": closed,
                "ready": 1 if self.loop.has_ready() else 0, "ndev": len(self.dev.log)}

    # ---- actions
    def apply(self, ev: dict) -> dict:
        raised = ""
        # device / client sends happen inside a running loop (from a callback or task): make the loop "running" for the call
        asyncio.events._set_running_loop(self.loop)
        try:
            op = ev["op"]
            if op == "accept":
                self._accept(ev["c"], ev["k"])
            elif op == "feed":
                self._feed(ev["c"], ev["it"], ev["id"])
            elif op == "dsend" and ev.get("blobmsg"):
                # a BLOB update (reaches the connections that enabled BLOBs for D): routed like any other device message
                self.router.process_message(M.SetBLOBVector(device="D", name=f"m{ev['id']}", state="Ok",
                                                            children=[one_parts.OneBLOB(name="b", size=3, format=".x", value="QUJD")]), sender=self.dev)
            elif op == "dsend":
                # (a `big` message is longer than any plausible chunk size: a write must still be one whole message)
                self.router.process_message(M.Message(device="D", message=f"m{ev['id']}", timestamp=("t" * 70000 if ev.get("big") else None)),
                                            sender=self.dev)
            elif op == "csend":
                self.conn[ev["c"]]["handler"].send_message(M.GetProperties(version="1.7", device=f"m{ev['id']}", name=("n" * 70000 if ev.get("big") else None)))
            elif op == "complete":
                k = self.conn[ev["c"]]
                pend = (k["stdout"] if k["kind"] == "tty" else k["writer"]).pending
                # (a scripted completion of an awaitable that this implementation does not have outstanding - e.g. because it
                #  coalesces writes - is an environment step that cannot happen: nothing is done)
                if 1 <= ev["i"] <= len(pend):
                    p = pend[ev["i"] - 1]
                    if ev["fail"]:
                        exc = ConnectionResetError("peer went away")
                        if k["kind"] != "tty":
                            k["writer"].connection_lost(exc)       # drain() fails because the transport was force-closed
                        p.fail(exc)
                    else:
                        p.complete()
            elif op == "tick":
                asyncio.events._set_running_loop(None)
                self.loop.tick()
            else:
                raise ValueError(op)
        except Exception as e:
            raised = f"{type(e).__name__}: {e}"
        finally:
            asyncio.events._set_running_loop(None)
        rec = dict(ev)
        rec.update(self.project())
        rec["raised"] = raised
        self.events.append(rec)
        return rec

    def _accept(self, c: str, kind: str):
        loop = self.loop
        if kind == "tcp":
            reader = asyncio.StreamReader()
            writer = FakeWriter(loop, c)
            task = loop.create_task(server_tcp.ConnectionHandler.handler(self.router)(reader, writer))
            self.conn[c] = {"kind": kind, "reader": reader, "writer": writer, "handler": None, "task": task}
        elif kind == "tty":
            stdin, stdout = FakeStdin(loop), FakeStdout(loop)
            h = server_tty.ConnectionHandler(self.router, stdin, stdout)
            task = loop.create_task(h.handle())
            self.conn[c] = {"kind": kind, "stdin": stdin, "stdout": stdout, "handler": h, "task": task}
        else:
            reader = asyncio.StreamReader()
            writer = FakeWriter(loop, c)
            h = client_tcp.ConnectionHandler(reader, writer, lambda m: None)
            self.conn[c] = {"kind": kind, "reader": reader, "writer": writer, "handler": h, "task": None}

    def _feed(self, c: str, it: str, ident: int):
        k = self.conn[c]
        if k["kind"] == "tcp":
            if it == "eof":
                k["reader"].feed_eof()
            elif it == "err":
                exc = ConnectionResetError("reset by peer")
                k["writer"].connection_lost(exc)
                k["reader"].set_exception(exc)
            else:
                k["reader"].feed_data(item_bytes(it, ident))
        else:
            if it == "eof":
                k["stdin"].feed("")
            elif it == "err":
                k["stdin"].feed(OSError("stdin failed"))
            else:
                k["stdin"].feed(item_bytes(it, ident).decode("latin1").replace('<?xml version="1.0"?>\n', ""))

    def close(self):
        try:
            for t in asyncio.all_tasks(self.loop):
                t.cancel()
            self.loop.settle(50)
        except Exception:
            pass
        self.loop.close()
        asyncio.set_event_loop(None)


def run_script(script: List[dict]) -> List[dict]:
    w = World()
    try:
        for ev in script:
            if ev["op"] == "tick" and not w.loop.has_ready():
                continue
            w.apply(ev)
        return w.events
    finally:
        w.close()


# ------------------------------------------------------------------ exhaustive exploration of completion orders (C19)
def explore_bursts(kind: str, nconn: int, nmsgs: int, budget: int, r, allow_fail: bool, big: bool = False, blob: bool = False) -> List[List[dict]]:
    """DFS over all schedules: next message routed / one loop iteration / any outstanding awaitable completes (or, once,
    fails).  Each maximal path is re-executed from scratch on fresh real objects."""
    conns = CONNS[:nconn]
    setup = [{"op": "accept", "c": c, "k": kind} for c in conns] + [{"op": "tick"}]
    if blob:
        # every connection enables BLOBs first; the first message of the burst is then a BLOB update, the others are ordinary ones
        setup += [{"op": "feed", "c": c, "it": "enable", "id": 0} for c in conns] + [{"op": "tick"}, {"op": "tick"}]
    traces: List[List[dict]] = []
    stack: List[Tuple[List[dict], int, int]] = [([], 0, 0)]     # (actions so far, messages sent, failures injected)
    while stack and len(traces) < budget:
        acts, sent, fails = stack.pop()
        events = run_script(setup + acts)
        last = events[-1]
        options: List[Tuple[dict, int, int]] = []
        if sent < nmsgs:
            nid = sent + 1
            extra = {"big": 1} if big and nid == 1 else ({"blobmsg": 1} if blob and nid == 1 else {})
            if kind == "cli":
                options.append(({"op": "csend", "c": conns[sent % nconn], "id": nid, **extra}, sent + 1, fails))
            else:
                options.append(({"op": "dsend", "id": nid, **extra}, sent + 1, fails))
        if last["ready"]:
            options.append(({"op": "tick"}, sent, fails))
        for c in conns:
            for i in range(1, last["npend"][c] + 1):
                options.append(({"op": "complete", "c": c, "i": i, "fail": 0}, sent, fails))
                if allow_fail and fails == 0 and i == 1:
                    options.append(({"op": "complete", "c": c, "i": i, "fail": 1}, sent, fails + 1))
        if not options or len(acts) > 10 * nmsgs * nconn + 8:
            traces.append(events)
            continue
        r.shuffle(options)
        for o, s2, f2 in options:
            stack.append((acts + [o], s2, f2))
    return traces


def stalled_connection(kind: str, r) -> List[dict]:
    """One connection never completes its awaitables; the others must get everything (Isolation)."""
    script = [{"op": "accept", "c": c, "k": kind} for c in CONNS] + [{"op": "tick"}]
    w = World()
    try:
        for ev in script:
            if ev["op"] == "tick" and not w.loop.has_ready():
                continue
            w.apply(ev)
        for n in range(1, 5):
            w.apply({"op": "dsend", "id": n} if kind != "cli" else {"op": "csend", "c": "b", "id": n})
            for _ in range(40):
                last = w.events[-1]
                todo = [c for c in ("b", "c") if last["npend"][c]]
                if last["ready"]:
                    w.apply({"op": "tick"})
                elif todo:
                    w.apply({"op": "complete", "c": r.choice(todo), "i": 1, "fail": 0})
                else:
                    break
        return w.events
    finally:
        w.close()


# ------------------------------------------------------------------ random sessions with faults (C18)
def random_session(r, length: int) -> List[dict]:
    w = World()
    try:
        nid = 0
        kinds = {c: r.choice(["tcp", "tcp", "tty"]) for c in CONNS}
        accepted: List[str] = []
        poisoned: Dict[str, bool] = {}
        ended: set = set()
        for _ in range(length):
            last = w.events[-1] if w.events else None
            opts = []
            if len(accepted) < len(CONNS):
                opts += ["accept"] * 3
            live = [c for c in accepted if w.conn[c]["task"] is not None and not w.conn[c]["task"].done() and c not in ended]
            if live:
                opts += ["feed"] * 4 + ["fault"]
            if accepted:
                opts += ["dsend"] * 3
            if last and last["ready"]:
                opts += ["tick"] * 6
            pend = [(c, i) for c in accepted for i in range(1, (last["npend"][c] if last else 0) + 1)]
            if pend:
                opts += ["complete"] * 4 + ["fail"]
            if not opts:
                break
            o = r.choice(opts)
            if o == "accept":
                c = [x for x in CONNS if x not in accepted][0]
                accepted.append(c)
                w.apply({"op": "accept", "c": c, "k": kinds[c]})
            elif o == "feed":
                c = r.choice(live)
                it = r.choice(["get", "get", "enable", "new", "junk", "partial"]) if not poisoned.get(c) else r.choice(["junk", "new"])
                if it == "partial":
                    poisoned[c] = True
                if it == "get":
                    nid += 1
                w.apply({"op": "feed", "c": c, "it": it, "id": nid if it == "get" else 0})
            elif o == "fault":
                c = r.choice(live)
                ended.add(c)
                w.apply({"op": "feed", "c": c, "it": r.choice(["eof", "err"] if poisoned.get(c) else ["eof", "err", "boom"]), "id": 0})
            elif o == "dsend":
                nid += 1
                w.apply({"op": "dsend", "id": nid})
            elif o == "tick":
                w.apply({"op": "tick"})
            else:
                c, i = r.choice(pend)
                w.apply({"op": "complete", "c": c, "i": i, "fail": 1 if o == "fail" else 0})
        # drain: let everything finish
        for _ in range(200):
            last = w.events[-1]
            pend = [(c, i) for c in accepted for i in range(1, last["npend"][c] + 1)]
            if last["ready"]:
                w.apply({"op": "tick"})
            elif pend:
                c, i = pend[0]
                w.apply({"op": "complete", "c": c, "i": i, "fail": 0})
            else:
                break
        return w.events
    finally:
        w.close()


def fault_scripts(tier: str) -> List[List[dict]]:
    """Every fault kind injected after every step index of a fixed 2-3 connection session, both transports."""
    out = []
    for ka, kb in [("tcp", "tcp"), ("tty", "tcp"), ("tcp", "tty")]:
        base = [{"op": "accept", "c": "a", "k": ka}, {"op": "accept", "c": "b", "k": kb}, {"op": "tick"},
                {"op": "feed", "c": "a", "it": "get", "id": 1}, {"op": "tick"},
                {"op": "feed", "c": "a", "it": "enable", "id": 0}, {"op": "feed", "c": "b", "it": "enable", "id": 0}, {"op": "tick"},
                {"op": "dsend", "id": 2}, {"op": "tick"},
                {"op": "feed", "c": "a", "it": "new", "id": 0}, {"op": "tick"},
                {"op": "dsend", "id": 3}, {"op": "tick"}]
        faults = [[("eof", 0)], [("err", 0)], [("partial", 0), ("eof", 0)], [("junk", 0), ("eof", 0)], [("boom", 0)], "writefail"]
        for at in range(3, len(base) + 1):
            for f in faults:
                script = list(base[:at])
                if f == "writefail":
                    script += [{"op": "dsend", "id": 7}, {"op": "tick"}, {"op": "complete", "c": "a", "i": 1, "fail": 1}]
                else:
                    script += [{"op": "feed", "c": "a", "it": it, "id": i} for it, i in f]
                script += [{"op": "tick"}, {"op": "tick"}]
                rest = [dict(e) for e in base[at:] if not (e["op"] == "feed" and e["c"] == "a")]
                script += rest
                # afterwards: a reconnecting peer starts fresh and everybody is still served
                script += [{"op": "accept", "c": "c", "k": ka}, {"op": "tick"}, {"op": "dsend", "id": 8}, {"op": "tick"}]
                out.append(script)
    return out


def finish_script(script: List[dict]) -> List[dict]:
    """Run a script; `complete` events that refer to an awaitable that does not exist are skipped; afterwards drain."""
    w = World()
    try:
        for ev in script:
            if ev["op"] == "complete":
                k = w.conn.get(ev["c"])
                pend = (k["stdout"] if k["kind"] == "tty" else k["writer"]).pending if k else []
                if len(pend) < ev["i"]:
                    continue
            if ev["op"] == "tick" and not w.loop.has_ready():
                continue
            if ev["op"] == "feed":
                k = w.conn[ev["c"]]
                if k["task"] is None or k["task"].done():
                    continue
            w.apply(ev)
        for _ in range(200):
            last = w.events[-1]
            pend = [(c, i) for c in w.conn for i in range(1, last["npend"][c] + 1)]
            if last["ready"]:
                w.apply({"op": "tick"})
            elif pend:
                w.apply({"op": "complete", "c": pend[0][0], "i": 1, "fail": 0})
            else:
                break
        return w.events
    finally:
        w.close()


def tlc_behaviours(n: int, depth: int, seed: int) -> List[List[dict]]:
    """spec -> code: behaviours of Transport.tla generated by TLC's simulator (each state carries the environment action taken) are
    replayed action by action on the real handlers"""
    import glob
    import os
    import shutil
    from ..tlaparse import parse_simulation_file
    wd = tlc.scratch_dir("sim-")
    try:
        res = tlc.run_tlc("MC_Transport", "MC_Transport_sim.cfg", workers=1, timeout=1800, workdir=wd,
                          extra=["-simulate", f"file={wd}/beh,num={n}", "-depth", str(depth), "-seed", str(seed + 1)])
        tlc.require_ok(res, "Transport simulation")
        if res.violated:
            raise tlc.MachineryError("simulation of Transport.tla violates " + str(res.violated))
        scripts = []
        for f in sorted(glob.glob(os.path.join(wd, "beh_*"))):
            acts = [st["act"] for _, _, st in parse_simulation_file(f) if "act" in st]
            script = []
            for a in acts:
                if a["op"] == "init":
                    continue
                ev = {k: (str(x) if not isinstance(x, (bool, int)) else x) for k, x in a.items()}
                if "fail" in ev:
                    ev["fail"] = 1 if ev["fail"] else 0
                script.append(ev)
            if script:
                scripts.append(script)
        return [run_script(s) for s in scripts]
    finally:
        shutil.rmtree(wd, ignore_errors=True)


def model_check(v: Verdict, tier: str) -> None:
    cfgs = ["MC_Transport_quick.cfg"] if tier == "quick" else ["MC_Transport_quick.cfg", "MC_Transport_thorough.cfg"]
    for cfg in cfgs:
        res = tlc.require_ok(tlc.run_tlc("MC_Transport", cfg, timeout=7200, heap="12g"), cfg)
        v.add_tlc(res, cfg)
        if res.violated:
            v.violation(f"TLC: {res.violated} violated in the transport model ({cfg})", {"kind": "tlc", "cfg": cfg, "tail": res.stdout[-3000:]})
    live = tlc.require_ok(tlc.run_tlc("MC_Transport", "MC_Transport_live.cfg", timeout=3600, heap="8g", workers=8), "Isolation liveness")
    v.add_tlc(live, "MC_Transport_live.cfg (fair liveness, connection a stalled)")
    if live.violated:
        v.violation("TLC: Isolation (a stalled connection delays only itself) violated in the transport model",
                    {"kind": "tlc", "cfg": "MC_Transport_live.cfg", "tail": live.stdout[-3000:]})
    a = tlc.require_ok(tlc.run_tlc("MC_Transport", "MC_Transport_asis.cfg", timeout=2400), "transport as-is self-test")
    v.notes["asis_selftest"] = {"AsIsTtyNoLock=TRUE violates": a.violated}
    if a.violated not in ("PrefixWhenNoFailure", "WholeInOrder"):
        raise tlc.MachineryError(f"self-test: TTY without lock should violate the ordering invariants, got {a.violated}")
    hit = tlc.probe_reachable("MC_Transport", "MC_Transport_quick.cfg",
                              ["ProbeInv_LockWaiter", "ProbeInv_ClosedWithPending", "ProbeInv_Reconnect"])
    v.notes["reachability_probes_hit"] = hit
    if not all(hit.values()):
        raise tlc.MachineryError(f"reachability probes not all hit: {hit}")


def run(prop: str, tier: str) -> int:
    v = Verdict(prop, tier)
    r = rng("transport")
    v.rule = ("case = one environment action (accept / feed / device send / completion or failure of an awaitable / loop iteration) applied "
              "to real handlers; non-trivial = the step changes an output stream, the registry or the set of outstanding awaitables; "
              "distinct = distinct (trace, step)")
    v.assumptions = ["asyncio's ready queue is FIFO and one iteration runs the handles ready at its start (modelled as Tick)",
                     "streams are fakes whose awaitables are released by the explorer; real sockets / thread pools are outside the model"]
    model_check(v, tier)
    v.phase("model_check")
    traces: List[List[dict]] = []
    budget = 250 if tier == "quick" else 4000
    if prop == "C19" or tier == "thorough":
        for kind in ("tcp", "tty", "cli"):
            for nconn, nmsgs in ([(1, 2), (1, 3), (2, 2)] if tier == "quick" else [(1, 2), (1, 3), (1, 4), (2, 2), (2, 3), (3, 2), (1, 5)]):
                traces += explore_bursts(kind, nconn, nmsgs, budget, r, allow_fail=True)
            traces += explore_bursts(kind, 1, 2, max(20, budget // 10), r, allow_fail=False, big=True)
            if kind in ("tcp", "tty"):
                traces += explore_bursts(kind, 1, 3, max(20, budget // 8), r, allow_fail=False, blob=True)
            traces.append(stalled_connection(kind, r))
        v.notes["burst_schedules"] = len(traces)
    if prop == "C18" or tier == "thorough":
        scripts = fault_scripts(tier)
        traces += [finish_script(s) for s in scripts]
        v.notes["fault_scripts"] = len(scripts)
    beh = tlc_behaviours(300 if tier == "quick" else 6000, 40, __import__("harness.common", fromlist=["seed"]).seed())
    v.notes["tlc_simulated_behaviours_replayed"] = len(beh)
    traces += beh
    nrand = 600 if tier == "quick" else 12000
    for _ in range(nrand):
        traces.append(random_session(r, r.randint(10, 45)))
    for ti, t in enumerate(traces):
        prev = None
        for i, ev in enumerate(t):
            v.evaluations += 1
            v.count_action(ev["op"])
            key = (json.dumps(ev["wire"]), json.dumps(ev["npend"]), tuple(ev["clients"]))
            if key != prev:
                v.nontrivial((ti, i))
            prev = key
    v.sample([{k: e[k] for k in e if k in ("op", "c", "k", "it", "id", "i", "fail", "wire", "npend", "clients")} for e in traces[0][:12]])
    v.phase("run_real_handlers")
    # every trace against the contract (what C18 / C19 literally state) ...
    crej, _, cdist = tlc.validate_traces("TraceTransportContract", "TraceTransportContract.cfg", traces)
    # ... and against the implementation-shaped model, step by step
    mrej, gen, dist = tlc.validate_traces("TraceTransport", "TraceTransport.cfg", traces)
    contract_bad = {id(x.trace) for x in crej}
    drift = [x for x in mrej if id(x.trace) not in contract_bad]
    v.notes["trace_validation"] = {"traces": len(traces), "rejected_by_contract": len(crej), "rejected_by_model": len(mrej),
                                   "model_drift_only": len(drift), "tlc_states": dist + cdist}
    for x in drift[:3]:
        v.notes.setdefault("model_drift_examples", []).append({"step": x.matched + 1, "script": [{k: e[k] for k in e if k in ("op", "c", "k", "it", "id", "i", "fail", "big")} for e in x.trace[: x.matched + 1]],
                                                               "observed": {k: x.trace[x.matched][k] for k in ("wire", "npend", "clients", "pol", "closed", "ready", "ndev")} if x.matched < len(x.trace) else None})
    if drift:
        print(f"NOTE: {len(drift)} traces are no longer explained step by step by Transport.tla although the C18/C19 contract "
              f"holds on them (implementation changed shape; first at step #{drift[0].matched + 1}); not a violation")
    # a violation is what the contract rejects; the model's rejection point is reported when it has one
    by_trace = {id(x.trace): x for x in mrej}
    rej = [by_trace.get(id(x.trace), x) if by_trace.get(id(x.trace)) and by_trace[id(x.trace)].matched <= x.matched else x for x in crej]
    v.traces_validated = len(traces) - len(crej)
    for rj in rej[:25]:
        ev = rj.trace[rj.matched] if rj.matched < len(rj.trace) else None
        v.violation(f"real handlers violate the C18/C19 contract (and leave Transport.tla) at step #{rj.matched + 1}: {json.dumps(ev)[:500]}",
                    {"kind": "transport-trace", "script": [{k: e[k] for k in e if k in ("op", "c", "k", "it", "id", "i", "fail", "big")} for e in rj.trace],
                     "rejected_step": rj.matched, "observed": ev})
    if len(rej) > 25:
        v.violations.extend(["(more)"] * (len(rej) - 25))
    v.phase("trace_validation")
    return v.finish()


def replay(prop: str, path: str) -> int:
    rp = json.load(open(path))["replay"]
    ev = run_script(rp["script"])
    k = rp["rejected_step"]
    print("re-executed; step", k + 1, "observed:", json.dumps(ev[k])[:800] if k < len(ev) else None)
    rej, _, _ = tlc.validate_traces("TraceTransport", "TraceTransport.cfg", [ev], shards=1)
    if rej:
        print(f"VIOLATION property={prop} replay={path}")
        return 1
    print("accepted by the specification")
    return 0
