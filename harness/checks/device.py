"""C06 C07 C09 C12 C14: Device.tla bound to indi.device by trace validation.

`defgen` builds fresh real Driver subclasses (through DriverMeta, with fresh property definitions and @on handlers)
from an abstract deployment; operations (driver-side assignments, set_value, state / enable toggles, selected values,
client writes and getProperties routed through a real Router) are executed on them; after each operation the public
state, every message the drivers handed to the router and every handler invocation are recorded and validated by
TraceDevice.tla, which re-evaluates the declarative properties of Device.tla on every step.
"""
from __future__ import annotations

import asyncio
import base64
import json
from typing import Any, Dict, List, Optional, Tuple

from .. import tlc
from ..common import Verdict, rng, seed, use_repo
from ..fakes import StepLoop

use_repo()

from indi import message as M  # noqa: E402
from indi.device import Driver, properties, values  # noqa: E402
from indi.device import events as DE  # noqa: E402
from indi.message import IndiMessage, one_parts  # noqa: E402
from indi.routing import Client as RoutingClient  # noqa: E402
from indi.routing import Router  # noqa: E402

NONE = "none"
NOREFRESH = "norefresh"
NUM = {"n1": 1.5, "n2": 2.25, "n3": -0.5, "n4": 100.0, "fresh": 7.75, "n5": 1.2345678}     # n5: not representable in the coarser formats
BLOBS = {"b1": (b"\x00\x01payload-one\xff", ".bin"), "b2": (b"second \x7f\x80 blob", ".fits.z"), "fresh": (b"fresh", ".f")}
LIGHTS = ["Idle", "Ok", "Busy", "Alert"]
FORMATS = ["%.2f", "%f", "%7.3f", "%.6m", "%10.9m"]


# ------------------------------------------------------------------ concretisation / abstraction of values
def conc(kind: str, tok: str):
    if tok == NONE:
        return None
    if kind == "number":
        return NUM[tok]
    if kind == "blob":
        b, f = BLOBS[tok]
        return values.BLOB(b, f)
    return tok


def abst(kind: str, x) -> str:
    if x is None:
        return NONE
    if kind == "number":
        try:
            fx = float(x)
        except (OverflowError, ValueError, TypeError):
            return "n?huge" if isinstance(x, int) else "n?%.40r" % (x,)
        for t, val in NUM.items():
            if abs(fx - val) < 1e-6:
                return t
        return "n?%.40r" % (x,)
    if kind == "blob":
        for t, (b, f) in BLOBS.items():
            if getattr(x, "binary", None) == b and getattr(x, "format", None) == f:
                return t
        return "b?"
    return str(x)


def wire_abst(kind: str, part, fmt: Optional[str]) -> str:
    """value token of a def/one part as it appears in an emitted message"""
    v = part.value
    if kind == "blob":
        if v is None:
            return NONE
        if not isinstance(v, (str, bytes)):
            return "b?object"
        raw = base64.b64decode(v)
        for t, (b, f) in BLOBS.items():
            if raw == b and getattr(part, "format", f) == f and int(getattr(part, "size", len(b))) == len(b):
                return t
        return "b?"
    if v is None:
        return NONE
    if kind == "number":
        try:
            return abst("number", parse_number(str(v)))
        except Exception:
            return "n?" + str(v)
    return str(v)


def parse_number(text: str) -> float:
    """independent reading of INDI number text (decimal or sexagesimal)"""
    import re
    t = text.strip()
    neg = t.startswith("-")
    t = t.lstrip("+-")
    parts = re.split(r"[:; ]", t)
    val = 0.0
    for i, p in enumerate(parts):
        val += float(p) / (60 ** i)
    return -val if neg else val


# ------------------------------------------------------------------ defgen
class RecClient(RoutingClient):
    def __init__(self):
        self.got: List[Any] = []

    def message_from_device(self, message):
        self.got.append(message)
        if getattr(self, "fail_next", False):
            self.fail_next = False
            raise RuntimeError("client failed while it was handed the update")


ELEM_CLASS = {"text": properties.Text, "number": properties.Number, "switch": properties.Switch, "light": properties.Light, "blob": properties.BLOB}
VEC_CLASS = {"text": properties.TextVector, "number": properties.NumberVector, "switch": properties.SwitchVector,
             "light": properties.LightVector, "blob": properties.BLOBVector}
EV = {"W": DE.Write, "C": DE.Change, "R": DE.Read}


class DeploymentBroken(Exception):
    """the instantiated drivers do not have the groups / vectors / elements their classes declare"""


class World:
    def __init__(self, dep: dict):
        self.dep = dep
        self.loop = StepLoop(virtual=True)
        asyncio.set_event_loop(self.loop)
        self.router = Router()
        self.hlog: List[dict] = []
        self.edefs: Dict[Tuple[int, int], Any] = {}
        self.fmt: Dict[Tuple[int, int], str] = {}
        self.drivers: Dict[str, Any] = {}
        # twin devices (dep["twin"] = {"B": "A"}): B is a second INSTANCE of A's driver class under another name; its vectors and
        # groups are reached through the attribute names of A's class
        self.va: Dict[int, int] = {}
        self.ga: Dict[int, int] = {}
        for b, a in dep.get("twin", {}).items():
            ga = [gi for gi, g in enumerate(dep["grps"], start=1) if g["dev"] == a]
            gb = [gi for gi, g in enumerate(dep["grps"], start=1) if g["dev"] == b]
            vas = [vi for vi, q in enumerate(dep["vecs"], start=1) if q["dev"] == a]
            vbs = [vi for vi, q in enumerate(dep["vecs"], start=1) if q["dev"] == b]
            assert len(ga) == len(gb) and len(vas) == len(vbs)
            self.ga.update(zip(gb, ga))
            self.va.update(zip(vbs, vas))
        self._build()
        for vi, vv in enumerate(dep["vecs"], start=1):
            try:
                for ei in range(1, len(vv["elems"]) + 1):
                    self.elem(vi, ei)
            except Exception as e:
                raise DeploymentBroken(f"driver {vv['dev']} (inheritance depth {dep.get('inherit', {}).get(vv['dev'], 1)}) lacks declared "
                                       f"property {vv['name']} of group {dep['grps'][vv['grp'] - 1]['name']}: {type(e).__name__}: {e}")
        for dname, drv in self.drivers.items():
            extra = [n for n in vars(drv).get("_vectors", {}) if not any(q["dev"] == dname and q["name"] == n for q in dep["vecs"])]
            if extra:
                raise DeploymentBroken(f"driver {dname} (inheritance depth {dep.get('inherit', {}).get(dname, 1)}) has properties its class does "
                                       f"not declare (a base class's group shadows the derived class's own): {extra}")
        self.client = RecClient()
        self.router.register_client(self.client)
        for d in dep["devorder"]:
            self.router.process_message(M.EnableBLOB(device=d, value="Also"), sender=self.client)
        self.sender = RecClient()          # the client that sends writes / getProperties (never receives its own messages)

    def _build(self):
        dep = self.dep
        vdefs: Dict[int, Any] = {}
        for vi, v in enumerate(dep["vecs"], start=1):
            elems = {}
            for ei, name in enumerate(v["elems"], start=1):
                kw: Dict[str, Any] = {"enabled": v["een"][ei - 1]}
                tok = dep["val0"][vi - 1][ei - 1]
                if v["kind"] == "number":
                    fmt = FORMATS[(vi + ei) % len(FORMATS)]
                    variant = (vi + 2 * ei) % 3         # how much the driver author declares: everything / the format only / nothing
                    if variant == 0:
                        kw.update(format=fmt, min=-1000, max=1000, step=0.25)
                    elif variant == 1:
                        kw.update(format=fmt)
                    else:
                        fmt = "%f"
                    self.fmt[(vi, ei)] = fmt
                if v["kind"] == "switch":
                    ed = ELEM_CLASS["switch"](name, default=tok, **kw)
                else:
                    ed = ELEM_CLASS[v["kind"]](name, label="L " + name, default=conc(v["kind"], tok), **kw)
                elems["el%d" % ei] = ed
                self.edefs[(vi, ei)] = ed
            kw = {"state": dep["vst0"][vi - 1], "enabled": dep["ven0"][vi - 1], "elements": elems, "label": "Vec " + v["name"]}
            if v["kind"] == "switch":
                kw["rule"] = v["rule"]
            if v["kind"] != "light":
                kw["perm"] = v.get("perm", "rw")
                kw["timeout"] = 0
            vdefs[vi] = VEC_CLASS[v["kind"]](v["name"], **kw)
        gdefs: Dict[int, Any] = {}
        for gi, g in enumerate(dep["grps"], start=1):
            vs = {"vec%d" % vi: vdefs[vi] for vi, v in enumerate(dep["vecs"], start=1) if v["grp"] == gi}
            gdefs[gi] = properties.Group(g["name"], enabled=dep["gen0"][gi - 1], vectors=vs) if vs else None
        world = self
        for vb, va_ in self.va.items():
            for ei in range(1, len(dep["vecs"][vb - 1]["elems"]) + 1):
                if (va_, ei) in self.fmt:
                    self.fmt[(vb, ei)] = self.fmt[(va_, ei)]
        for dname in dep["devorder"]:
            if dname in dep.get("twin", {}):
                self.drivers[dname] = type(self.drivers[dep["twin"][dname]])(name=dname, router=self.router)
                continue
            ns: Dict[str, Any] = {"name": dname}
            for gi, g in enumerate(dep["grps"], start=1):
                if g["dev"] == dname and gdefs[gi] is not None:
                    ns["grp%d" % gi] = gdefs[gi]
            # handlers: one method per entry, except that entries marked `stack` share the method of the previous entry
            # (one handler attached to several elements: stacked @on decorators, or one @on with a list of sources)
            groups: List[List[int]] = []
            for hi, h in enumerate(dep["hs"], start=1):
                if dep["vecs"][h["v"] - 1]["dev"] != dname:
                    continue
                if h.get("stack") and groups and self._same_shape(dep["hs"][groups[-1][0] - 1], h) \
                        and all((dep["hs"][g - 1]["v"], dep["hs"][g - 1]["e"]) != (h["v"], h["e"]) for g in groups[-1]):
                    groups[-1].append(hi)
                else:
                    groups.append([hi])
            for gi, g in enumerate(groups):
                ns["h%03d" % g[0]] = self._handler_group(g, listform=(gi % 2 == 1))
            # inheritance: the groups of a device may be spread over a chain of base classes (depth <= 3)
            chain = dep.get("inherit", {}).get(dname, 1)
            gkeys = [k for k in ns if k.startswith("grp")]
            base = Driver
            for level in range(chain - 1):
                part = {k: ns.pop(k) for k in gkeys[level::chain] if k in ns} if gkeys else {}
                part["name"] = dname
                # the base also declares a group under an attribute name that the derived class re-declares: the derived
                # class's own declaration must win
                keep = [k for k in gkeys if k in ns]
                if keep:
                    part[keep[0]] = properties.Group("DECOY", vectors={"decoy": properties.TextVector("DECOY_%s" % dname, elements={"d": properties.Text("d", default="decoy")})})
                base = type("Base%d_%s" % (level, dname), (base,), part)
            cls = type("Gen_" + dname, (base,), ns)
            if chain > 1 and base is not Driver:
                # a deployment may also run the base driver on its own (another process, an earlier test): instantiating it
                # must not influence the derived class
                try:
                    base(name="BASE_" + dname)
                except Exception:
                    pass
            self.drivers[dname] = cls(router=self.router)

    @staticmethod
    def _same_shape(a: dict, b: dict) -> bool:
        return all(a[k] == b[k] for k in ("ev", "coro", "veto", "refresh"))

    def _handler_group(self, his: List[int], listform: bool):
        """one method serving the entries `his` (same event type and behaviour, different elements)"""
        world = self
        hs = self.dep["hs"]
        h = hs[his[0] - 1]
        by_def = {id(self.edefs[(hs[i - 1]["v"], hs[i - 1]["e"])]): i for i in his}

        def record(event, late):
            el = event.element
            hi = by_def.get(id(vars(el).get("_definition")), his[0])
            kind = world.dep["vecs"][hs[hi - 1]["v"] - 1]["kind"]
            cur = vars(el).get("_value", None)
            rec = {"h": hi, "ev": h["ev"], "seen": abst(kind, cur),
                   "req": abst(kind, getattr(event, "new_value", None)) if h["ev"] == "W" else NONE,
                   "old": abst(kind, getattr(event, "old_value", None)) if h["ev"] == "C" else NONE,
                   "new": abst(kind, getattr(event, "new_value", None)) if h["ev"] == "C" else NONE, "late": late}
            world.hlog.append(rec)
            if not late:
                if h["veto"]:
                    event.prevent_default = True
                if h["refresh"] != NOREFRESH:
                    el.reset_value(conc(kind, h["refresh"]))
        if h["coro"]:
            async def handler(self, event):
                record(event, True)
        else:
            def handler(self, event):
                record(event, False)
        handler.__name__ = "h%03d" % his[0]
        srcs = [self.edefs[(hs[i - 1]["v"], hs[i - 1]["e"])] for i in his]
        if listform or len(srcs) == 1:
            return DE.on(srcs if len(srcs) > 1 else srcs[0], EV[h["ev"]])(handler)
        for src in reversed(srcs):                 # stacked decorators, written top to bottom in entry order
            handler = DE.on(src, EV[h["ev"]])(handler)
        return handler

    # ---- access
    def vec(self, vi: int):
        v = self.dep["vecs"][vi - 1]
        return getattr(self.drivers[v["dev"]].get_group("grp%d" % self.ga.get(v["grp"], v["grp"])), "vec%d" % self.va.get(vi, vi))

    def elem(self, vi: int, ei: int):
        return getattr(self.vec(vi), "el%d" % ei)

    def project(self) -> dict:
        dep = self.dep
        val, vst, ven = [], [], []
        for vi, v in enumerate(dep["vecs"], start=1):
            vec = self.vec(vi)
            val.append([abst(v["kind"], vars(self.elem(vi, ei)).get("_value")) for ei in range(1, len(v["elems"]) + 1)])
            vst.append(vec.state_)
            ven.append(bool(vec.enabled))
        gen = []
        for gi, g in enumerate(dep["grps"], start=1):
            grp = self.drivers[g["dev"]].get_group("grp%d" % self.ga.get(gi, gi))
            gen.append(bool(grp.enabled) if grp is not None else dep["gen0"][gi - 1])
        return {"val": val, "vst": vst, "ven": ven, "gen": gen}

    def abstract_pub(self, msg) -> Tuple[dict, bool]:
        dep = self.dep
        ok = True
        try:
            wire = msg.to_string()
            back = IndiMessage.from_string(wire)
            ok = (back == msg) and back.to_string() == wire and type(back) is type(msg)
        except Exception:
            ok = False
        vi = 0
        for i, v in enumerate(dep["vecs"], start=1):
            if v["dev"] == msg.device and v["name"] == getattr(msg, "name", None):
                vi = i
        if isinstance(msg, M.DelProperty):
            return {"t": "del", "v": vi, "st": NONE, "els": []}, ok
        t = "def" if isinstance(msg, M.DefVector) else "set" if isinstance(msg, M.SetVector) else "other"
        kind = dep["vecs"][vi - 1]["kind"] if vi else "text"
        els = []
        for ch in getattr(msg, "children", []) or []:
            ei = dep["vecs"][vi - 1]["elems"].index(ch.name) + 1 if vi and ch.name in dep["vecs"][vi - 1]["elems"] else 0
            els.append([ch.name, wire_abst(kind, ch, self.fmt.get((vi, ei)))])
        if t == "def" and vi:
            v = dep["vecs"][vi - 1]
            grp = dep["grps"][v["grp"] - 1]["name"]
            meta_ok = (msg.group == grp and msg.label == "Vec " + v["name"] and (kind == "light" or msg.perm == v.get("perm", "rw"))
                       and (kind != "switch" or msg.rule == v["rule"])
                       and all(getattr(c, "label", None) == "L " + c.name or kind == "switch" for c in msg.children))
            ok = ok and meta_ok
        return {"t": t, "v": vi, "st": getattr(msg, "state", NONE), "els": els}, ok

    # ---- operations
    def apply(self, ev: dict) -> dict:
        dep = self.dep
        del self.hlog[:]
        del self.client.got[:]
        raised = False
        asyncio.events._set_running_loop(self.loop)
        try:
            o = ev["o"]
            if o == "assign":
                kind = dep["vecs"][ev["v"] - 1]["kind"]
                self.elem(ev["v"], ev["e"]).value = conc(kind, ev["x"])
            elif o == "assignfail":
                # the publication of this assignment fails on the way (a client's callback raises)
                kind = dep["vecs"][ev["v"] - 1]["kind"]
                self.client.fail_next = True
                try:
                    self.elem(ev["v"], ev["e"]).value = conc(kind, ev["x"])
                finally:
                    self.client.fail_next = False
            elif o == "setvalue":
                kind = dep["vecs"][ev["v"] - 1]["kind"]
                self.elem(ev["v"], ev["e"]).set_value(conc(kind, ev["x"]))
            elif o == "reset":
                kind = dep["vecs"][ev["v"] - 1]["kind"]
                self.elem(ev["v"], ev["e"]).reset_value(conc(kind, ev["x"]))
            elif o == "state":
                self.vec(ev["v"]).state_ = ev["st"]
            elif o == "ven":
                self.vec(ev["v"]).enabled = ev["b"]
            elif o == "gen":
                g = dep["grps"][ev["g"] - 1]
                self.drivers[g["dev"]].get_group("grp%d" % self.ga.get(ev["g"], ev["g"])).enabled = ev["b"]
            elif o == "sel":
                self.vec(ev["v"]).selected_values = list(ev["names"])
            elif o == "read":
                self.elem(ev["v"], ev["e"]).value
            elif o == "tick":
                asyncio.events._set_running_loop(None)
                self.loop.tick()
            elif o == "get":
                self.router.process_message(M.GetProperties(version="1.7", device=None if ev["t"] == NONE else ev["t"],
                                                            name=None if ev["n"] == NONE else ev["n"]), sender=self.sender)
            elif o == "new":
                self.router.process_message(self.new_message(ev), sender=self.sender)
            else:
                raise ValueError(o)
        except Exception as e:
            raised = True
            self.last_exc = f"{type(e).__name__}: {e}"
        finally:
            asyncio.events._set_running_loop(None)
        pubs, wireok = [], True
        for m in self.client.got:
            if isinstance(m, M.GetProperties):
                continue
            a, ok = self.abstract_pub(m)
            pubs.append(a)
            wireok = wireok and ok
        ntasks = len([t for t in asyncio.all_tasks(self.loop) if not t.done()])
        obs = self.project()
        obs.update({"ntasks": ntasks, "raised": raised, "wireok": wireok, "pub": pubs, "hlog": list(self.hlog)})
        rec = dict(ev)
        rec["obs"] = obs
        return rec

    def new_message(self, ev: dict):
        """A newXXXVector for target/vector name with children <<name, token, convertible>>.  The message class matches the
        addressed vector when every child is convertible; an inconvertible child is realised as text that the element cannot
        take (sent in a newTextVector), a wrong BLOB as a size mismatch."""
        dep = self.dep
        target = None if ev["t"] == NONE else ev["t"]
        kind = ev.get("kind", "text")
        parts = []
        bad = any(not c[2] for c in ev["ch"])
        for name, tok, okflag in ev["ch"]:
            fmt = ev.get("fmts", {}).get(name, "%f")
            if kind == "blob" and not bad:
                b, f = BLOBS[tok]
                parts.append(one_parts.OneBLOB(name=name, size=len(b), format=f, value=base64.b64encode(b).decode()))
            elif kind == "blob":
                b, f = BLOBS.get(tok, (b"zz", ".x"))
                parts.append(one_parts.OneBLOB(name=name, size=len(b) + (0 if okflag else 3), format=f, value=base64.b64encode(b).decode()))
            elif kind == "number" and not bad:
                parts.append(one_parts.OneNumber(name=name, value=ev.get("numtext", {}).get(name) or values.num_to_str(NUM[tok], fmt)))
            elif kind == "switch" and not bad:
                parts.append(one_parts.OneSwitch(name=name, value=tok))
            else:
                text = tok if okflag else (None if tok == NONE else "not convertible")
                if okflag and kind == "number":
                    text = values.num_to_str(NUM[tok], fmt)
                parts.append(one_parts.OneText(name=name, value=text))
        if kind == "blob":
            cls = M.NewBLOBVector
        elif kind == "number" and not bad:
            cls = M.NewNumberVector
        elif kind == "switch" and not bad:
            cls = M.NewSwitchVector
        else:
            cls = M.NewTextVector
        return cls(device=target, name=ev["n"], children=parts)

    def close(self):
        try:
            for t in asyncio.all_tasks(self.loop):
                t.cancel()
            self.loop.settle(20)
        except Exception:
            pass
        self.loop.close()
        asyncio.set_event_loop(None)


# ------------------------------------------------------------------ deployments and operation generators
def switch_dep(rule: str, n: int, ini: List[str]) -> dict:
    return {"vecs": [{"dev": "A", "name": "SW", "kind": "switch", "rule": rule, "grp": 1, "elems": ["s%d" % i for i in range(1, n + 1)],
                      "een": [True] * n}],
            "grps": [{"dev": "A", "name": "G"}], "hs": [], "devorder": ["A"], "val0": [ini], "vst0": ["Ok"], "ven0": [True], "gen0": [True]}


def twin_dep(r) -> dict:
    """two instances of ONE driver class under different names (no handlers): state, indexes and caches kept on the class or
    on the shared definitions instead of on the instance make a message for one device act on the other"""
    dep = random_dep(r, devs=["A"])
    dep["hs"] = []
    ng, nv = len(dep["grps"]), len(dep["vecs"])
    dep["grps"] += [{**g, "dev": "B"} for g in dep["grps"]]
    dep["vecs"] += [{**q, "dev": "B", "grp": q["grp"] + ng, "elems": list(q["elems"]), "een": list(q["een"])} for q in dep["vecs"][:nv]]
    for k in ("val0", "vst0", "ven0"):
        dep[k] += [list(x) if isinstance(x, list) else x for x in dep[k][:nv]]
    dep["gen0"] += list(dep["gen0"][:ng])
    dep["devorder"] = ["A", "B"]
    dep["inherit"]["B"] = dep["inherit"]["A"]
    dep["twin"] = {"B": "A"}
    return dep


def random_dep(r, devs=None) -> dict:
    devs = devs or ["A", "B", "C"][: r.randint(1, 3)]
    vecs, grps, val0, vst0, ven0, gen0 = [], [], [], [], [], []
    # a vector name determines its kind, so that a write broadcast to all devices meets vectors of one kind only
    names_by_kind = {"text": ["TXT", "NOTE", "INFO"], "number": ["NUM", "POS", "TEMP"], "switch": ["SW", "MODE", "CONN"],
                     "light": ["LGT", "STAT", "LED"], "blob": ["IMG", "RAW", "CCD"]}
    for d in devs:
        for gi in range(r.randint(1, 3)):
            grps.append({"dev": d, "name": "G%d" % gi})
            gen0.append(r.random() < 0.8)
            g = len(grps)
            for _ in range(r.randint(1, 3)):
                kind = r.choice(["text", "number", "switch", "light", "blob"])
                free = [n for n in names_by_kind[kind] if not any(v["dev"] == d and v["name"] == n for v in vecs)]
                if not free:
                    continue
                name = r.choice(free)
                ne = r.randint(1, 3)
                elems = ["e%d" % i for i in range(1, ne + 1)]
                rule = r.choice(["OneOfMany", "AtMostOne", "AnyOfMany"]) if kind == "switch" else ""
                if kind == "text":
                    vals = [r.choice(["x", "y", "z"]) for _ in elems]
                elif kind == "number":
                    vals = [r.choice(["n1", "n2", "n3", "n4"]) for _ in elems]
                elif kind == "switch":
                    on = r.randrange(ne)
                    vals = ["On" if (i == on and rule != "AnyOfMany") or (rule == "AnyOfMany" and r.random() < 0.5) else "Off" for i in range(ne)]
                    if rule == "AtMostOne" and r.random() < 0.3:
                        vals = ["Off"] * ne
                elif kind == "light":
                    vals = [r.choice(LIGHTS) for _ in elems]
                else:
                    vals = [r.choice([NONE, NONE, "b1"]) for _ in elems]
                een = [True if kind == "switch" else r.random() < 0.85 for _ in elems]
                vecs.append({"dev": d, "name": name, "kind": kind, "rule": rule, "grp": g, "perm": r.choice(["rw", "ro", "wo"]),
                             "elems": elems, "een": een})
                val0.append(vals)
                vst0.append(r.choice(LIGHTS))
                ven0.append(r.random() < 0.8)
    hs = []
    for _ in range(r.choice([0, 0, 2, 4, 6])):
        vi = r.randint(1, len(vecs))
        kind = vecs[vi - 1]["kind"]
        ev = r.choice(["W", "W", "C", "C", "R"])
        refresh = NOREFRESH
        if ev == "R" and r.random() < 0.7 and kind in ("text", "number"):
            refresh = "fresh"
        hs.append({"v": vi, "e": r.randint(1, len(vecs[vi - 1]["elems"])), "ev": ev, "coro": r.random() < 0.4,
                   "veto": ev == "W" and r.random() < 0.3, "refresh": refresh})
    # vetoing or refreshing coroutine handlers make no sense (they run later): normalise
    for h in hs:
        if h["coro"]:
            h["veto"] = False
            h["refresh"] = NOREFRESH
    # several plain Write handlers on one element, the vetoing one first: the others are invoked all the same
    for h in list(hs):
        if not h["coro"] and h["ev"] == "W" and r.random() < 0.5:
            hs.append({**h, "veto": False})
    # several coroutine handlers on the same event of the same element (each is a task of its own)
    for h in list(hs):
        if h["coro"] and h["ev"] in ("W", "C") and r.random() < 0.5:
            hs.append(dict(h))
            if r.random() < 0.4:
                hs.append(dict(h))
    # one handler attached to several elements: a copy of an entry for another element of the same device, sharing its method
    extra = []
    for h in hs:
        extra.append(h)
        if r.random() < 0.35:
            dev = vecs[h["v"] - 1]["dev"]
            cand = [(vi, ei) for vi, q in enumerate(vecs, start=1) if q["dev"] == dev and (h["refresh"] == NOREFRESH or q["kind"] == vecs[h["v"] - 1]["kind"])
                    for ei in range(1, len(q["elems"]) + 1) if (vi, ei) != (h["v"], h["e"])]
            if cand:
                vi, ei = r.choice(cand)
                extra.append({**h, "v": vi, "e": ei, "stack": True})
    hs = extra
    return {"vecs": vecs, "grps": grps, "hs": hs, "devorder": devs, "val0": val0, "vst0": vst0, "ven0": ven0, "gen0": gen0,
            "inherit": {d: r.choice([1, 1, 2, 3]) for d in devs}}


def domain(kind: str, r, wrong: bool = False) -> str:
    if kind == "text":
        return r.choice(["x", "y", "z", "\u00e9\u00b0 \u00fc"])        # also text outside ASCII (Latin-1)
    if kind == "number":
        return r.choice(["n1", "n2", "n3", "n4"])
    if kind == "switch":
        return r.choice(["On", "Off", "Maybe"] if wrong else ["On", "Off"])
    if kind == "light":
        return r.choice(LIGHTS + (["Blue"] if wrong else []))
    return r.choice(["b1", "b2"])


def random_ops(r, dep: dict, length: int, world: "World") -> List[dict]:
    ops = []
    nv = len(dep["vecs"])
    for _ in range(length):
        x = r.random()
        vi = r.randint(1, nv)
        v = dep["vecs"][vi - 1]
        ei = r.randint(1, len(v["elems"]))
        if x < 0.18:
            ops.append({"o": "assign", "v": vi, "e": ei, "x": domain(v["kind"], r, wrong=r.random() < 0.1)})
        elif x < 0.24:
            ops.append({"o": "setvalue", "v": vi, "e": ei, "x": domain(v["kind"], r)})
        elif x < 0.27:
            ops.append({"o": "assignfail", "v": vi, "e": ei, "x": domain(v["kind"], r)})
        elif x < 0.32:
            if v["kind"] in ("text", "number", "light"):       # reset_value bypasses the switch rule by design: not exercised on switches
                ops.append({"o": "reset", "v": vi, "e": ei, "x": domain(v["kind"], r)})
        elif x < 0.62:
            ops.append(random_new(r, dep, world))
        elif x < 0.74:
            t = r.choice(dep["devorder"] + [NONE, "NOSUCHDEV", ""])
            n = r.choice([NONE, NONE, v["name"], "NOSUCHVEC"])
            ops.append({"o": "get", "t": t, "n": n})
        elif x < 0.79:
            ops.append({"o": "state", "v": vi, "st": r.choice(LIGHTS)})
        elif x < 0.84:
            ops.append({"o": "ven", "v": vi, "b": r.random() < 0.6})
        elif x < 0.88:
            nonempty = sorted({x["grp"] for x in dep["vecs"]})
            ops.append({"o": "gen", "g": r.choice(nonempty), "b": r.random() < 0.6})
        elif x < 0.93 and v["kind"] == "switch":
            ops.append({"o": "sel", "v": vi, "names": r.sample(v["elems"], r.randint(0, len(v["elems"])))})
        elif x < 0.96:
            ops.append({"o": "read", "v": vi, "e": ei})
        else:
            ops.append({"o": "tick"})
    return ops


def random_new(r, dep: dict, world: "World") -> dict:
    vi = r.randint(1, len(dep["vecs"]))
    v = dep["vecs"][vi - 1]
    kind = v["kind"]
    fault = r.random()
    t = v["dev"]
    n = v["name"]
    if fault < 0.08:
        t = r.choice(["NOSUCHDEV", NONE, ""])
    elif fault < 0.14:
        n = "NOSUCHVEC"
    ch = []
    names = list(v["elems"])
    r.shuffle(names)
    for name in names[: r.randint(0 if fault > 0.9 else 1, len(names))]:
        ok = True
        tok = domain(kind if kind != "light" else "light", r)
        if 0.14 <= fault < 0.30 and kind != "text":
            ok = r.random() < 0.5          # some children are not convertible
        if not ok and kind in ("switch", "light"):
            tok = r.choice(["not convertible", NONE])        # what the element is actually handed (an empty element gives None)
        ch.append([name, tok, ok])
    if 0.30 <= fault < 0.40:
        ch.append(["nosuchelem", domain(kind, r), True])
    if 0.40 <= fault < 0.46 and ch:
        ch.append([ch[0][0], domain(kind, r), True])          # duplicate child
    msgkind = kind if kind in ("number", "switch", "blob") else "text"
    fmts = {name: world.fmt.get((vi, v["elems"].index(name) + 1), "%f") for name in v["elems"]}
    return {"o": "new", "t": t, "n": n, "ch": ch, "kind": msgkind, "fmts": fmts}


def run_trace(dep: dict, ops_fn) -> dict:
    w = World(dep)
    try:
        ops = ops_fn(w)
        evs = []
        for o in ops:
            if evs and evs[-1]["obs"]["ntasks"] >= 5 and o["o"] != "tick":
                evs.append(w.apply({"o": "tick"}))        # the event loop gets to run: pending coroutine handlers execute
            evs.append(w.apply(o))
        return {"dep": {k: dep[k] for k in ("vecs", "grps", "hs", "devorder", "val0", "vst0", "ven0", "gen0", "inherit", "twin") if k in dep}, "ev": evs}
    finally:
        w.close()


def switch_traces(tier: str) -> List[dict]:
    """C09: every transition of every (rule, n, configuration) graph: one one-step trace per (state, operation)."""
    import itertools
    out = []
    maxn = {"quick": 4, "veto-only": 2}.get(tier, 5)
    for rule in ("OneOfMany", "AtMostOne", "AnyOfMany"):
        for n in range(1, maxn + 1):
            names = ["s%d" % i for i in range(1, n + 1)]
            for ini in itertools.product(["On", "Off"], repeat=n):
                ops: List[dict] = []
                for e in range(1, n + 1):
                    for x in ("On", "Off"):
                        ops.append({"o": "assign", "v": 1, "e": e, "x": x})
                        ops.append({"o": "assignfail", "v": 1, "e": e, "x": x})
                        ops.append({"o": "setvalue", "v": 1, "e": e, "x": x})
                        ops.append({"o": "new", "t": "A", "n": "SW", "ch": [[names[e - 1], x, True]], "kind": "switch"})
                for k in (2, 3):
                    if n >= 2 and (k == 2 or (tier == "thorough" and n <= 4)):
                        for combo in itertools.permutations(names, min(k, n)):
                            for xs in itertools.product(["On", "Off"], repeat=len(combo)):
                                ops.append({"o": "new", "t": "A", "n": "SW", "ch": [[c, x, True] for c, x in zip(combo, xs)], "kind": "switch"})
                for m in range(0, n + 1):
                    for sel in itertools.combinations(names, m):
                        ops.append({"o": "sel", "v": 1, "names": list(sel)})
                # one fresh driver per operation, so that every transition starts from exactly this configuration
                for op in ops:
                    if tier != "veto-only":
                        out.append(run_trace(switch_dep(rule, n, list(ini)), lambda w, op=op: [op]))
                # the same writes with a Write handler that vetoes the default on one switch (a vetoed write changes nothing)
                if n <= 3:
                    for ve in range(1, n + 1):
                        dep = switch_dep(rule, n, list(ini))
                        dep["hs"] = [{"v": 1, "e": ve, "ev": "W", "coro": False, "veto": True, "refresh": NOREFRESH}]
                        for op in ops:
                            if op["o"] == "setvalue" or (op["o"] == "new" and len(op["ch"]) <= 2):
                                out.append(run_trace(dep, lambda w, op=op: [op]))
                        if n <= 2:
                            # a Change handler on the switch (it fires iff the STORED value changed - the rule may force a
                            # requested Off back to On), and a second, non-vetoing Write handler behind the vetoing one
                            for hs in ([{"v": 1, "e": ve, "ev": "C", "coro": False, "veto": False, "refresh": NOREFRESH}],
                                       [{"v": 1, "e": ve, "ev": "W", "coro": False, "veto": True, "refresh": NOREFRESH},
                                        {"v": 1, "e": ve, "ev": "W", "coro": False, "veto": False, "refresh": NOREFRESH}]):
                                dep2 = switch_dep(rule, n, list(ini))
                                dep2["hs"] = hs
                                for op in ops:
                                    if op["o"] in ("assign", "setvalue") or (op["o"] == "new" and len(op["ch"]) == 1):
                                        out.append(run_trace(dep2, lambda w, op=op: [op]))
    return out


def tlc_behaviours(n: int, depth: int, seed: int) -> List[dict]:
    """spec -> code: behaviours of Device.tla on the deployment GenD, generated by TLC's simulator (each state carries the
    operation taken), are replayed operation by operation on real drivers built from the same deployment; the recorded traces are
    then validated like all others.  (A model `task` step runs one pending handler, a real loop iteration runs all of them: a
    run of `task` steps becomes one `tick`.)"""
    import glob
    import os
    import shutil
    from ..tlaparse import parse_simulation_file
    wd = tlc.scratch_dir("simdev-")
    try:
        res = tlc.run_tlc("MC_Device", "MC_Device_sim.cfg", workers=1, timeout=1800, workdir=wd,
                          extra=["-simulate", f"file={wd}/beh,num={n}", "-depth", str(depth), "-seed", str(seed + 1)])
        tlc.require_ok(res, "Device simulation")
        if res.violated:
            raise tlc.MachineryError("simulation of Device.tla violates " + str(res.violated))
        out = []
        for f in sorted(glob.glob(os.path.join(wd, "beh_*"))):
            steps = parse_simulation_file(f)
            if not steps:
                continue
            d = steps[0][2]["dep"]
            dep = {"vecs": [dict(x) for x in d["vecs"]], "grps": [dict(x) for x in d["grps"]], "hs": [dict(x) for x in d["hs"]],
                   "devorder": list(d["devorder"]), "val0": [list(x) for x in d["val0"]], "vst0": list(d["vst0"]),
                   "ven0": list(d["ven0"]), "gen0": list(d["gen0"])}
            for vv in dep["vecs"]:
                vv["elems"], vv["een"] = list(vv["elems"]), list(vv["een"])
            ops: List[dict] = []
            for _, _, st in steps[1:]:
                o = dict(st["op"])
                if o["o"] == "task":
                    if not ops or ops[-1]["o"] != "tick":
                        ops.append({"o": "tick"})
                    continue
                if o["o"] == "sel":
                    o["v"], o["names"] = 2, sorted(o["names"])
                if o["o"] == "new":
                    vi = next((i for i, vv in enumerate(dep["vecs"], start=1) if vv["name"] == o["n"] and (o["t"] in (NONE, vv["dev"]))), 0)
                    kind = dep["vecs"][vi - 1]["kind"] if vi else "text"
                    fits = {"text": lambda x: True, "light": lambda x: True, "number": lambda x: x in NUM, "switch": lambda x: x in ("On", "Off"),
                            "blob": lambda x: x in BLOBS}[kind]
                    ch = []
                    for c in o["ch"]:
                        okc = (bool(c[2]) and fits(c[1])) or kind == "text"          # a text element takes any string
                        # an inconvertible child of a switch / light is recorded with the text the element is actually handed
                        ch.append([c[0], c[1] if okc or kind not in ("switch", "light") else "not convertible", okc])
                    o["ch"] = ch
                    o["kind"] = kind if kind in ("number", "switch", "blob") else "text"
                    o["fmts"] = {}
                ops.append(o)
            out.append((dep, ops))
        return out
    finally:
        shutil.rmtree(wd, ignore_errors=True)


def model_check(v: Verdict, prop: str, tier: str) -> None:
    jobs = [("MC_Device_switch.cfg", "switch")] if prop == "C09" else [("MC_Device_gen.cfg" if tier == "quick" else "MC_Device_gen3.cfg", "general")]
    for cfg, label in jobs:
        res = tlc.require_ok(tlc.run_tlc("MC_Device", cfg, timeout=7200, heap="12g"), cfg)
        v.add_tlc(res, cfg)
        if res.violated:
            v.violation(f"TLC: {res.violated} violated in the device model ({cfg})", {"kind": "tlc", "cfg": cfg, "tail": res.stdout[-3000:]})
    if prop != "C09":
        a = tlc.require_ok(tlc.run_tlc("MC_Device", "MC_Device_asis.cfg", timeout=2400), "device as-is self-test")
        v.notes["asis_selftest"] = {"AsIsNoContain=TRUE violates": a.violated}
        if a.violated != "P_Robust":
            raise tlc.MachineryError(f"self-test: the uncontained driver should violate P_Robust, got {a.violated}")
        hit = tlc.probe_reachable("MC_Device", "MC_Device_gen.cfg", ["Probe_Veto", "Probe_CoroTask", "Probe_DelReply", "Probe_Refresh"])
        v.notes["reachability_probes_hit"] = hit
        if not all(hit.values()):
            raise tlc.MachineryError(f"reachability probes not all hit: {hit}")


def run(prop: str, tier: str) -> int:
    v = Verdict(prop, tier)
    r = rng("device-" + prop)
    v.rule = ("case = one operation (assignment, set_value, client write, getProperties, state/enable toggle, selected values, task run) on "
              "real generated drivers; non-trivial = it publishes a message, invokes a handler or changes a value; distinct = distinct (trace, step)")
    v.assumptions = ["handlers of the generated drivers read the element's stored value to report what they saw",
                     "values are abstracted to tokens by a fixed table (numbers within 1e-6, BLOBs by bytes and format)"]
    model_check(v, prop, tier)
    v.phase("model_check")
    traces: List[dict] = []
    if prop == "C09":
        traces += switch_traces(tier)
        v.notes["switch_transitions_replayed"] = len(traces)
        v.exhaustive = True
    ndep = {"quick": 120, "thorough": 2500}[tier]
    for di in range(ndep):
        dep = random_dep(r)        # twin_dep(r) is NOT used yet: the trace spec resolves properties by name and rejects correct twin runs (DESIGN 13.5)
        if prop == "C09" and not any(x["kind"] == "switch" for x in dep["vecs"]):
            continue
        try:
            traces.append(run_trace(dep, lambda w, dep=dep: random_ops(r, dep, r.randint(8, 30), w)))
        except DeploymentBroken as e:
            v.violation(str(e), {"kind": "deployment", "what": str(e)})
    if prop == "C07":
        # every sequence of three enable / disable assignments to one vector and its group, then getProperties by device and by
        # name: the reply is decided by the vector's OWN flag and the group's flag, whatever order they were set in
        import itertools
        nseq = 0
        for _ in range({"quick": 5, "thorough": 60}[tier]):
            dep = random_dep(r)
            dep["hs"] = []
            vi = r.randint(1, len(dep["vecs"]))
            q = dep["vecs"][vi - 1]
            alphabet = [{"o": "ven", "v": vi, "b": True}, {"o": "ven", "v": vi, "b": False},
                        {"o": "gen", "g": q["grp"], "b": True}, {"o": "gen", "g": q["grp"], "b": False}]
            for seq in itertools.product(alphabet, repeat=3):
                ops = [dict(o) for o in seq] + [{"o": "get", "t": q["dev"], "n": NONE}, {"o": "get", "t": q["dev"], "n": q["name"]}]
                try:
                    traces.append(run_trace(dep, lambda w, ops=ops: ops))
                    nseq += 1
                except DeploymentBroken as e:
                    v.violation(str(e), {"kind": "deployment", "what": str(e)})
                    break
        v.notes["enable_sequences_replayed"] = nseq
    if prop in ("C14", "C06"):
        # every exclusive-rule configuration of two switches with a vetoing Write handler: a vetoed write changes nothing at all
        traces += [t for t in switch_traces("veto-only")]
    if prop != "C09":
        nb = 0
        for dep, ops in tlc_behaviours(40 if tier == "quick" else 600, 14, seed()):
            try:
                traces.append(run_trace(dep, lambda w, ops=ops: ops))
                nb += 1
            except DeploymentBroken as e:
                v.violation(str(e), {"kind": "deployment", "what": str(e)})
        v.notes["tlc_simulated_behaviours_replayed"] = nb
    for ti, t in enumerate(traces):
        for i, e in enumerate(t["ev"]):
            v.evaluations += 1
            v.count_action(e["o"])
            if e["obs"]["pub"] or e["obs"]["hlog"]:
                v.nontrivial((ti, i))
    s = traces[-1]
    v.sample({"deployment": {"vecs": s["dep"]["vecs"][:3], "hs": s["dep"]["hs"][:3]}, "steps": s["ev"][:3]})
    v.phase("run_real_drivers")
    mrej, gen, dist = tlc.validate_traces("TraceDevice", "TraceDevice.cfg", traces)
    # every trace also against the properties evaluated on the observed states alone (contract mode); a trace that only the
    # operational model rejects is model drift (the implementation changed shape), not a violation
    crej, _, cdist = tlc.validate_traces("TraceDevice", "TraceDevice_contract.cfg", traces)
    cbad = {x.index: x for x in crej}
    drift = [x for x in mrej if x.index not in cbad]
    v.notes["trace_validation"] = {"traces": len(traces), "rejected_by_model": len(mrej), "rejected_by_contract": len(crej),
                                   "model_drift_only": len(drift), "tlc_states": dist + cdist}
    if drift:
        from ..common import REPLAY_DIR
        import os
        os.makedirs(REPLAY_DIR, exist_ok=True)
        dt = drift[0].trace
        json.dump({"replay": {"kind": "device-trace", "dep": dt["dep"], "ops": [{k: e[k] for k in e if k != "obs"} for e in dt["ev"]],
                              "rejected_step": drift[0].matched}}, open(os.path.join(REPLAY_DIR, f"drift-{prop}.json"), "w"))
        print(f"NOTE: {len(drift)} traces are no longer explained step by step by Device.tla although every property holds on the observed "
              f"states (implementation changed shape; first: trace {drift[0].index} step #{drift[0].matched + 1}); not a violation")
    by_model = {x.index: x for x in mrej}
    rej = [by_model[i] if i in by_model and by_model[i].matched <= cbad[i].matched else cbad[i] for i in sorted(cbad)]
    v.traces_validated = len(traces) - len(crej)
    for rj in rej[:25]:
        ev = rj.trace["ev"][rj.matched] if rj.matched < len(rj.trace["ev"]) else None
        v.violation(f"real drivers violate the property contract (and leave Device.tla) at step #{rj.matched + 1}: op {({k: ev[k] for k in ev if k != 'obs'}) if ev else None} "
                    f"observed {json.dumps(ev['obs'])[:600] if ev else None}",
                    {"kind": "device-trace", "dep": rj.trace["dep"], "ops": [{k: e[k] for k in e if k != "obs"} for e in rj.trace["ev"]],
                     "rejected_step": rj.matched, "observed": ev})
    if len(rej) > 25:
        v.violations.extend(["(more)"] * (len(rej) - 25))
    v.phase("trace_validation")
    if prop == "C06":
        # end to end: client -> serializer -> server connection handler -> framing -> router -> driver, and back to the writer's view
        from . import syscheck
        syscheck.run_into(v, "C06", tier)
        from . import clientmirror
        clientmirror.run_into(v, "C06", tier)
        v.phase("end_to_end")
    if prop == "C12":
        from . import robust
        robust.run_into(v, tier, r)
        v.phase("transport_sessions")
    return v.finish()


def replay(prop: str, path: str) -> int:
    rp = json.load(open(path))["replay"]
    if rp.get("kind") == "deployment":
        print(rp["what"])
        print(f"VIOLATION property={prop} replay={path}")
        return 1
    if rp.get("kind") == "clientwrite-trace":
        print(json.dumps(rp["observed"], indent=1)[:1500])
        print(f"VIOLATION property={prop} replay={path}")
        return 1
    if rp.get("kind") == "robust-session":
        print(json.dumps(rp["event"], indent=1)[:1500])
        print(f"VIOLATION property={prop} replay={path}")
        return 1
    t = run_trace(rp["dep"], lambda w: rp["ops"])
    k = rp["rejected_step"]
    print("re-executed; step", k + 1, json.dumps(t["ev"][k])[:1200])
    rej, _, _ = tlc.validate_traces("TraceDevice", "TraceDevice.cfg", [t], shards=1)
    if rej:
        print(f"VIOLATION property={prop} replay={path}")
        return 1
    print("accepted by the specification")
    return 0
