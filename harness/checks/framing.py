"""Real-world text through the real Buffer, validated against Framing.tla (part (b) of C02 / C11).

Streams are assembled from real INDI messages (all kinds, children, text with markup characters, quotes and
non-ASCII) in foreign XML spellings, Latin-1 junk built from protocol fragments, and valid messages
truncated at every position; they are cut exhaustively (1-, 2-, 3-cut), character by character and
randomly.  Per process() call the harness records which of the stream's messages were delivered (matched by
an independent structural view of the sent XML), whether each delivered object is a genuine message,
the retained length, and any exception or non-termination.
"""
from __future__ import annotations

import itertools
import json
import xml.etree.ElementTree as ET
from typing import Any, Dict, List, Optional, Sequence, Tuple

from .. import tlc
from .. import watchdog
from ..watchdog import Stalled, bounded
from ..common import Verdict, rng, use_repo

use_repo()

from indi import message as M  # noqa: E402
from indi.message import IndiMessage, def_parts, one_parts  # noqa: E402
from indi.transport import Buffer  # noqa: E402


# ------------------------------------------------------------------ message corpus (real objects)
def corpus() -> List[Any]:
    T = "2024-01-01T00:00:00"
    tx = ["plain", "a > b", "x < y & z", 'say "hi"', "it's", '8" newtonian', "5' 3\" tall", "zażółć ☃", "\U0001f52d tele", "in  ner\tws", "l1\nl2", "]]> <!-- x -->"]
    out: List[Any] = [
        M.GetProperties(version="1.7"),
        M.GetProperties(version="1.7", device="CAM"),
        M.GetProperties(version="1.7", device="CAM <1>", name='EXP "x"'),
        M.EnableBLOB(device="CAM", value="Also"),
        M.EnableBLOB(device="CAM", name="IMG", value="Never"),
        M.DelProperty(device="CAM"),
        M.DelProperty(device="CAM", name="EXPOSE", timestamp=T, message="gone > away"),
        M.Message(device="CAM", timestamp=T, message="hello <world> & 'all'"),
        M.Message(message="x"),
        M.PingRequest(uid="u-1"),
        M.PingReply(uid="u-1"),
        M.NewSwitchVector(device="CAM", name="CONNECTION", children=[one_parts.OneSwitch(name="CONNECT", value="On"),
                                                                     one_parts.OneSwitch(name="DISCONNECT", value="Off")]),
        M.NewNumberVector(device="CAM", name="EXPOSE", timestamp=T, children=[one_parts.OneNumber(name="T", value="12:30:15.5")]),
        M.NewBLOBVector(device="CAM", name="IMG", children=[one_parts.OneBLOB(name="B", size=3, format=".fits", value="QUJD")]),
        M.SetBLOBVector(device="CAM", name="IMG", state="Ok", children=[one_parts.OneBLOB(name="B", size=6, format=".z", value="QUJD\nREVG")]),
        M.SetLightVector(device="CAM", name="L", state="Alert", children=[one_parts.OneLight(name="a", value="Busy"),
                                                                          one_parts.OneLight(name="b", value="Idle")]),
        M.SetNumberVector(device="CAM", name="N", state="Busy", timeout=5, message="m", children=[one_parts.OneNumber(name="x", value="-0.5")]),
        M.SetSwitchVector(device="CAM", name="S", state="Idle", children=[]),
        M.DefSwitchVector(device="CAM", name="S", state="Ok", perm="rw", rule="OneOfMany", label="Sw <1>", group="Main",
                          children=[def_parts.DefSwitch(name="a", value="On", label="A"), def_parts.DefSwitch(name="b", value="Off")]),
        M.DefNumberVector(device="CAM", name="N", state="Ok", perm="ro", timeout=0,
                          children=[def_parts.DefNumber(name="x", format="%10.6m", min=0, max=360, step=0, value="359:59:59", label="X")]),
        M.DefLightVector(device="CAM", name="L", state="Idle", children=[def_parts.DefLight(name="a", value="Ok")]),
        M.DefBLOBVector(device="CAM", name="IMG", state="Ok", perm="ro", children=[def_parts.DefBLOB(name="B")]),
    ]
    for i, t in enumerate(tx):
        out.append(M.SetTextVector(device="D%d" % i, name="TXT", state="Ok", children=[one_parts.OneText(name="t", value=t),
                                                                                      one_parts.OneText(name="u", value=None)]))
        out.append(M.NewTextVector(device=t, name="N", children=[one_parts.OneText(name=t, value=t)]))
        out.append(M.DefTextVector(device="D", name="TXT", state="Busy", perm="wo", label=t, children=[def_parts.DefText(name="t", value=t, label=t)]))
    return out


def infoset(e: ET.Element):
    """Independent structural view of XML text: tag, attributes, trimmed text, children."""
    t = (e.text or "").strip()
    return (e.tag, tuple(sorted(e.attrib.items())), t, tuple((c.tag, tuple(sorted(c.attrib.items())), (c.text or "").strip()) for c in e))


def view(obj):
    """The same view of a delivered object, through its public fields."""
    def fields(o):
        return tuple(sorted((k, str(v)) for k, v in vars(o).items() if k not in ("children", "value") and v is not None))
    val = getattr(obj, "value", None)
    return (type(obj).tag_name(), fields(obj), "" if val is None else str(val).strip(),
            tuple((type(c).tag_name(), fields(c), "" if c.value is None else str(c.value).strip())
                  for c in (getattr(obj, "children", None) or ())))


class View(tuple):
    """view() of a delivered object that also remembers which fields the object HAS (set or not): comparing it with the infoset of
    the XML that was sent tolerates attributes the message class has no field for (the parser drops them by design)."""
    names: tuple = ()
    kid_names: tuple = ()


def view_of(obj) -> "View":
    v = View(view(obj))
    v.names = tuple(vars(obj).keys())
    v.kid_names = tuple(tuple(vars(c).keys()) for c in (getattr(obj, "children", None) or ()))
    return v


def same_content(v, x) -> bool:
    """does the delivered object (View) have the content of the sent element (infoset)?"""
    if not isinstance(v, View):
        return v == x

    def attrs_ok(fields, names, xattrs):
        f, xa = dict(fields), dict(xattrs)
        if any(k not in xa or xa[k] != val for k, val in f.items()):
            return False
        return all(k in f or k not in names for k in xa)        # an attribute without a field in the class was dropped by the parser
    if v[0] != x[0] or v[2] != x[2] or len(v[3]) != len(x[3]) or not attrs_ok(v[1], v.names, x[1]):
        return False
    return all(kv[0] == kx[0] and kv[2] == kx[2] and attrs_ok(kv[1], kn, kx[1]) for kv, kx, kn in zip(v[3], x[3], v.kid_names))


def spell(e: ET.Element, sp: int) -> str:
    """Independent XML writer: bit flags declaration, indentation, single quotes, reversed attribute order,
    explicit end tags for empty elements, character references for non-ASCII."""
    decl, indent, squote, rev, explicit, refs = [(sp >> i) & 1 for i in range(6)]
    q = "'" if squote else '"'

    def esc(s, attr):
        out = []
        for i, ch in enumerate(s):
            if ch == "&":
                out.append("&amp;")
            elif ch == "<":
                out.append("&lt;")
            elif ch == ">" and (attr or refs or s[max(0, i - 2):i] == "]]"):
                out.append("&gt;")
            elif attr and ch == q:
                out.append("&quot;" if q == '"' else "&apos;")
            elif attr and ch in "\n\t\r":
                out.append("&#%d;" % ord(ch))
            elif refs and ord(ch) > 126:
                out.append("&#x%X;" % ord(ch))
            else:
                out.append(ch)
        return "".join(out)

    def open_tag(x):
        items = list(x.attrib.items())
        if rev:
            items.reverse()
        return "<" + x.tag + "".join(f" {a}={q}{esc(v, True)}{q}" for a, v in items)
    nl, pad = ("\n", "  ") if indent else ("", "")
    kids = []
    for c in e:
        if c.text:
            kids.append(pad + open_tag(c) + ">" + esc(c.text, False) + f"</{c.tag}>")
        else:
            kids.append(pad + open_tag(c) + (f"></{c.tag}>" if explicit else " />"))
    if not kids and not e.text:
        body = open_tag(e) + (f"></{e.tag}>" if explicit else "/>")
    else:
        body = open_tag(e) + ">" + (esc(e.text, False) if e.text else "") + nl + nl.join(kids) + (nl if kids else "") + f"</{e.tag}>"
    return ('<?xml version="1.0"?>' + nl if decl else "") + body + nl


KNOWN_TAGS = None


def known_tags() -> List[str]:
    global KNOWN_TAGS
    if KNOWN_TAGS is None:
        KNOWN_TAGS = sorted({c.tag_name() for c in IndiMessage.all_message_classes()})
    return KNOWN_TAGS


JUNK_CLEAN = ["", "\n", "  \n", "junk text", "x > y", "]]>", "<foo/>", "<bar a='1'>t</bar>", "</closer>", "<!-- a comment -->", "<![CDATA[ x ]]>",
              "<?xml version='1.0'?>", "<!DOCTYPE indi>", "\x00\x01", "\xe9\xff\xa0", "&amp; &bogus;", "<", ">", "<<", "<x", "/>", "'\"",
              "<unknownVector device='x'><oneFoo/></unknownVector>", "<hbshjshjbsbjh />", "<asdF><aaaa/></asdF>", "a" * 300]
JUNK_DIRTY = ["<getProperties version='1.7'>", "<getPropertiesX/>", "<setTextVector", "</setTextVector>", "<message", "<defSwitchVector device='d'>",
              "<!-- <getProperties version='1.7'/> -->", "<getProperties/>", "<delProperty/>", "<enableBLOB device='d'>Sometimes</enableBLOB>",
              "<newSwitchVector device='d' name='n'><oneSwitch name='a'>Maybe</oneSwitch></newSwitchVector>", "<oneLight name='x'>Foo</oneLight>",
              "<setNumberVector device='d' name='n' state='Ok'><oneNumber name='x'>abc</oneNumber></setNumberVector>",
              "<newBLOBVector device='d' name='n'><oneBLOB name='b'>QQ==</oneBLOB></newBLOBVector>", "<pingRequest/>",
              "<defTextVector device='d' name='n' state='Bad' perm='rw'/>", "<getProperties version='1.7'", "<getProperties version='1.7'/"]


class Watch(Exception):
    pass


def ideal_scan(text: str) -> List[Tuple[int, int]]:
    """(first, last) of the valid messages an ideal receiver finds: at each "<" + known tag, the shortest well-formed element is
    taken (delivered if it is a valid message, skipped as a whole if not); anything else is skipped character by character."""
    tags = known_tags()
    out = []
    p, n = 0, len(text)
    while p < n:
        if text[p] == "<" and any(text.startswith("<" + t, p) for t in tags):
            end = text.find(">", p)
            found = None
            while end >= 0:
                part = text[p:end + 1]
                try:
                    ET.fromstring(part)
                    found = end
                    break
                except ET.ParseError:
                    end = text.find(">", end + 1)
            if found is not None:
                try:
                    IndiMessage.from_string(text[p:found + 1])
                    out.append((p + 1, found + 1))
                except Exception:
                    pass
                p = found + 1
                continue
        p += 1
    return out


def run_stream(pieces: List[Tuple[str, str]], cuts: Sequence[int], thr: int, mini: bool = False) -> dict:
    """pieces: (class, text) with class 'msg' | 'junk' | 'dirty'.  Returns one trace for TraceFraming."""
    text = "".join(t for _, t in pieces)
    msgs = []
    expect = {}
    pos = 0
    mid = 0
    for cls, t in pieces:
        if cls == "msg":
            lead = len(t) - len(t.lstrip())
            body = t.strip()
            if body.startswith("<?xml"):
                k = body.index("?>") + 2
                lead += k + (len(body[k:]) - len(body[k:].lstrip()))
                body = body[k:].lstrip()
            mid += 1
            msgs.append({"id": mid, "first": pos + lead + 1, "last": pos + lead + len(body)})
            # (mini alphabet: the toy classes K / C invent fields - C a name - so that the expected content is taken from the same classes)
            expect[mid] = view(IndiMessage.from_string(body)) if mini else infoset(ET.fromstring(body))
        pos += len(t)
    if mini:
        # Mini-alphabet streams of many pieces can wrap a valid message into a larger well-formed element made of junk around it
        # ("<k>" + message + "</k>"): such a message is part of a corrupt element, not "a later valid message", and no receiver
        # can tell it apart.  Only the messages an ideal receiver (whole stream at once, no threshold) finds at top level are owed.
        top = set(ideal_scan(text))
        kept = [m for m in msgs if (m["first"], m["last"]) in top]
        renum = {m["id"]: i + 1 for i, m in enumerate(kept)}
        expect = {renum[m["id"]]: expect[m["id"]] for m in kept}
        msgs = [{"id": renum[m["id"]], "first": m["first"], "last": m["last"]} for m in kept]
    inside = [False] * (len(text) + 2)
    for m in msgs:
        for i in range(m["first"], m["last"] + 1):
            inside[i] = True
    clean = 1
    for tag in known_tags():
        i = text.find("<" + tag)
        while i >= 0:
            if not inside[i + 1] or not any(m["first"] == i + 1 or (m["first"] < i + 1 <= m["last"]) for m in msgs):
                clean = 0
            i = text.find("<" + tag, i + 1)
    buf = Buffer()
    buf.max_buffer_size_before_frontal_cleanup = None if thr < 0 else thr
    ev = []
    fed = 0
    next_expected = 1
    off_prev = 0
    for b in sorted(set(cuts)) + [len(text)]:
        if b <= fed:
            continue
        piece = text[fed:b]
        fed = b
        got: List[Any] = []
        budget = 4 * len(text) + 16

        def cb(m):
            got.append(m)
            if len(got) > budget:
                raise Watch("more callbacks than characters: process() does not terminate")
        raised = ""
        try:
            if len(ev) % 2 == 1 and len(piece) >= 2:       # two appends, one process() (see buffer.run_buffer)
                k = 1 + (fed % (len(piece) - 1))
                buf.append(piece[:k])
                buf.append(piece[k:])
            else:
                buf.append(piece)
            with bounded(30, f"Buffer.process on {len(text)} characters"):
                buf.process(cb)
        except (Watch, Stalled) as e:
            raised = "non-termination: " + str(e)
            if watchdog.fired_total >= 3:
                raise Stalled(str(e) + " (third occurrence: the check stops here)")
        except Exception as e:
            raised = f"{type(e).__name__}: {e}"
        ids, genuine = [], []
        off_now = fed - len(buf.data)                # characters consumed so far; this call consumed (off_prev, off_now]
        views = []
        for m in got[:200]:
            ok = 0
            vw = None
            if isinstance(m, IndiMessage):
                try:
                    vw = view_of(m)
                    ok = 1 if view(IndiMessage.from_string(m.to_string())) == vw else 0
                except Exception:
                    ok = 0
            views.append(vw)
            genuine.append(ok)
        # which of the stream's messages are they?  deliveries and the layout messages inside the region this call consumed
        # are both in stream order: align them by a longest common subsequence on content; a delivered message that is
        # not aligned (e.g. one assembled from junk) is none of the stream's messages: id 0
        region = [j for j in range(1, len(msgs) + 1) if msgs[j - 1]["first"] > off_prev and msgs[j - 1]["last"] <= off_now]
        n, k = len(views), len(region)
        L = [[0] * (k + 1) for _ in range(n + 1)]
        for i in range(n - 1, -1, -1):
            for j in range(k - 1, -1, -1):
                L[i][j] = L[i + 1][j + 1] + 1 if views[i] is not None and same_content(views[i], expect[region[j]]) else max(L[i + 1][j], L[i][j + 1])
        ids = [0] * n
        i = j = 0
        while i < n and j < k:
            if views[i] is not None and same_content(views[i], expect[region[j]]) and L[i][j] == L[i + 1][j + 1] + 1:
                ids[i] = region[j]
                i += 1
                j += 1
            elif L[i + 1][j] >= L[i][j + 1]:
                i += 1
            else:
                j += 1
        ev.append({"fed": fed, "ids": ids, "genuine": genuine, "dlen": len(buf.data), "raised": raised})
        off_prev = off_now
        if raised:
            break
    return {"thr": thr, "clean": clean, "msgs": msgs, "ev": ev, "text": text}


def cut_plans(r, n: int, tier: str):
    yield []
    if n <= 1:
        return
    if n <= (120 if tier == "thorough" else 90):
        for a in range(1, n):                                     # every 1-cut partition
            yield [a]
    if n <= (120 if tier == "thorough" else 64):
        step = 1 if tier == "thorough" else 2
        for a in range(1, n, step):                               # 2-cut partitions (every one in the thorough tier)
            for b in range(a + 1, n, step):
                yield [a, b]
    if n <= (48 if tier == "thorough" else 34):
        for c in itertools.combinations(range(1, n, 1 if tier == "thorough" else 3), 3):     # 3-cut partitions
            yield list(c)
    yield list(range(1, n))                       # character by character
    yield list(range(1024, n, 1024))              # the handlers' read size
    for _ in range(6 if tier == "quick" else 30):
        k = r.randint(1, min(n - 1, 12))
        yield sorted(r.sample(range(1, n), k))


def build_streams(r, tier: str):
    objs = corpus()
    nstreams = 260 if tier == "quick" else 1500
    for i in range(nstreams):
        dirty = i % 2 == 1
        pieces: List[Tuple[str, str]] = []
        for _ in range(r.randint(1, 4 if i % 5 else 9)):
            if r.random() < 0.45:
                pieces.append(("junk", r.choice(JUNK_CLEAN)))
            if dirty and r.random() < 0.5:
                if r.random() < 0.5:
                    pieces.append(("dirty", r.choice(JUNK_DIRTY)))
                else:
                    o = r.choice(objs)
                    full = spell(o.to_xml(), r.randrange(64)).strip()
                    pieces.append(("dirty", full[: r.randint(1, len(full) - 1)]))      # truncated at a random position
            o = r.choice(objs)
            if r.random() < 0.3:
                txt = o.to_string().decode("latin1") if r.random() < 0.5 else o.to_string().decode("utf-8")
            else:
                txt = spell(o.to_xml(), r.randrange(64))
            pieces.append(("msg", txt))
        if r.random() < 0.3:
            pieces.append(("junk", r.choice(JUNK_CLEAN)))
        if dirty and r.random() < 0.6:
            pieces.append(("junk", "padding " * 300))        # enough further data for recovery
        yield pieces


SHORT = ['<getProperties version="1.7"/>', '<pingReply uid="7"/>', '<message message="m"/>', '<delProperty device="D"/>',
         '<enableBLOB device="D">Also</enableBLOB>', "<pingRequest uid='&gt;'/>", '<message message="a>b"></message>\n']


def short_streams(tier: str):
    """short streams for which EVERY 1-, 2- and 3-cut partition is executed"""
    for a in SHORT:
        yield [("msg", a)]
        yield [("junk", "x>"), ("msg", a), ("junk", "\n")]
    for a, b in itertools.permutations(SHORT[:5], 2):
        if len(a) + len(b) <= (64 if tier == "quick" else 90):
            yield [("msg", a), ("msg", b)]


def truncation_streams(tier: str):
    """a valid message truncated at EVERY position, followed by valid traffic"""
    objs = corpus()
    tail = M.GetProperties(version="1.7", device="AFTER").to_string().decode() + M.PingRequest(uid="after").to_string().decode()
    pick = objs[::7] if tier == "quick" else objs[::2]
    for o in pick:
        full = o.to_string().decode("utf-8").strip()
        step = 1 if tier == "thorough" or len(full) < 90 else 3
        for k in range(1, len(full), step):
            yield [("dirty", full[:k]), ("msg", tail[: tail.index("\n", 25) + 1]), ("msg", tail[tail.index("\n", 25) + 1:]), ("junk", "z" * 2100)]


def handler_traces(r, tier: str) -> List[dict]:
    """Bytes through the REAL connection handlers (client TCP with and without for_blobs, server TCP): the receive path
    `await reader.read(1024)` -> decode -> Buffer.  Streams carry raw non-ASCII bytes (UTF-8 and Latin-1) and are cut at
    byte level, also inside multi-byte characters.  The reference for "identical content" is the same handler fed one
    whole message per read; every other fragmentation must deliver exactly the same messages (CleanContract)."""
    import asyncio
    from ..fakes import FakeWriter, StepLoop
    from indi.routing import Device as RoutingDevice
    from indi.routing import Router
    from indi.transport.client import tcp as client_tcp
    from indi.transport.server import tcp as server_tcp

    class Rec(RoutingDevice):
        def __init__(self):
            self.got = []

        def accepts(self, device):
            return True

        def message_from_client(self, message):
            self.got.append(message)

    def run(kind: str, chunks: List[bytes]):
        loop = StepLoop(virtual=True)
        asyncio.set_event_loop(loop)
        try:
            reader = asyncio.StreamReader()
            writer = FakeWriter(loop)
            got: List[Any] = []
            calls = []
            if kind == "server":
                server_tcp.ConnectionHandler.connections = []
                router = Router()
                dev = Rec()
                router.register_device(dev)
                got = dev.got
                task = loop.create_task(server_tcp.ConnectionHandler.handler(router)(reader, writer))
                loop.settle()
                handler = server_tcp.ConnectionHandler.connections[0]
            else:
                handler = client_tcp.ConnectionHandler(reader, writer, got.append, for_blobs=(kind == "blob"))
                task = loop.create_task(handler.wait_for_messages())
                loop.settle()
            fed = 0
            for ch in chunks:
                before = len(got)
                reader.feed_data(ch)
                loop.settle()
                fed += len(ch)
                raised = ""
                if task.done() and task.exception() is not None:
                    raised = repr(task.exception())
                calls.append((fed, list(got[before:]), len(handler.buffer.data), raised))
            return calls
        finally:
            for t in asyncio.all_tasks(loop):
                t.cancel()
            loop.settle(20)
            loop.close()
            asyncio.set_event_loop(None)

    def run_two(msgs_a: List[bytes], msgs_b: List[bytes], order: List[Tuple[str, int]]):
        """two server connections at once: their bytes interleaved piecewise; each connection's stream must be framed on its own"""
        loop = StepLoop(virtual=True)
        asyncio.set_event_loop(loop)
        try:
            server_tcp.ConnectionHandler.connections = []
            router = Router()
            dev = Rec()
            router.register_device(dev)
            readers = {}
            for name in ("A", "B"):
                readers[name] = asyncio.StreamReader()
                loop.create_task(server_tcp.ConnectionHandler.handler(router)(readers[name], FakeWriter(loop)))
            loop.settle()
            streams = {"A": b"".join(msgs_a), "B": b"".join(msgs_b)}
            pos = {"A": 0, "B": 0}
            calls = {"A": [], "B": []}
            for name, n in order:
                before = len(dev.got)
                piece = streams[name][pos[name]:pos[name] + n]
                if not piece:
                    continue
                pos[name] += len(piece)
                readers[name].feed_data(piece)
                loop.settle()
                calls[name].append((pos[name], [m for m in dev.got[before:]]))
            for name in ("A", "B"):
                rest = streams[name][pos[name]:]
                if rest:
                    before = len(dev.got)
                    readers[name].feed_data(rest)
                    loop.settle()
                    calls[name].append((len(streams[name]), [m for m in dev.got[before:]]))
            return calls
        finally:
            for t in asyncio.all_tasks(loop):
                t.cancel()
            loop.settle(20)
            loop.close()
            asyncio.set_event_loop(None)

    texts = ["zażółć gęślą jaźń", "café ☃ \U0001f52d", "ÿþý \xe9\xe8", "日本語テキスト", "a > b & \u20ac"]
    out = []
    # two connections of one server, interleaved: a message of A split around a whole message of B and vice versa
    for si in range(6 if tier == "quick" else 80):
        def mk(tag, k):
            o = M.NewTextVector(device=tag, name="N%d" % k, children=[one_parts.OneText(name="e", value="%s-%d-%d" % (tag, si, k))])
            return spell(o.to_xml(), r.choice([0, 2, 4, 16])).encode("latin1", "xmlcharrefreplace")
        ma = [mk("A", k) for k in range(r.randint(1, 3))]
        mb = [mk("B", k) for k in range(r.randint(1, 3))]
        order = []
        la, lb = len(b"".join(ma)), len(b"".join(mb))
        while la > 0 or lb > 0:
            name = r.choice(["A", "B"])
            n = r.choice([1, 5, 17, 60, 200])
            order.append((name, n))
            if name == "A":
                la -= n
            else:
                lb -= n
        calls = run_two(ma, mb, order)
        for name, msgs_x in (("A", ma), ("B", mb)):
            layout, p0 = [], 0
            for j, b in enumerate(msgs_x):
                layout.append({"id": j + 1, "first": p0 + 1, "last": p0 + len(b.rstrip())})
                p0 += len(b)
            want = [view(IndiMessage.from_string(b.decode("latin1"))) for b in msgs_x]
            ev, nxt = [], 0
            for fed, ms in calls[name]:
                ids, gen = [], []
                for m in ms:
                    vw = view(m)
                    if vw[1] and dict(vw[1]).get("device") != name:
                        continue                      # the other connection's message, delivered while this one was being fed
                    ident = 0
                    for j in range(nxt, len(want)):
                        if want[j] == vw:
                            ident, nxt = j + 1, j + 1
                            break
                    ids.append(ident)
                    gen.append(1 if ident else 0)
                if ev and fed <= ev[-1]["fed"]:
                    ev[-1]["ids"] += ids
                    ev[-1]["genuine"] += gen
                else:
                    ev.append({"fed": fed, "ids": ids, "genuine": gen, "dlen": 0, "raised": ""})
            out.append({"thr": 2048, "clean": 1, "msgs": layout, "ev": ev,
                        "text": f"[server connection {name} of two interleaved connections] " + b"".join(msgs_x).decode("latin1")})
    nstreams = 12 if tier == "quick" else 120
    for si in range(nstreams + 2):
        kind = ["client", "blob", "server"][si % 3] if si < nstreams else "blob"
        msgs_b: List[bytes] = []
        if si >= nstreams:
            # a message far longer than any read or stream-buffer size (a long run of characters without a tag end), between two
            # short ones, on the connection whose junk-recovery threshold is disabled
            big = "y" * r.choice([66000, 70001, 140000])
            for val in ("before", big, "after"):
                o = M.SetTextVector(device="D", name="BIG", state="Ok", children=[one_parts.OneText(name="e", value=val)])
                msgs_b.append(spell(o.to_xml(), 0).encode("latin1"))
        for _ in range(r.randint(1, 4) if si < nstreams else 0):
            t = r.choice(texts)
            if kind == "server":
                o = M.NewTextVector(device=t, name="N", children=[one_parts.OneText(name="e", value=t + str(r.randint(0, 99)))])
            else:
                o = M.SetTextVector(device="D", name=t, state="Ok", children=[one_parts.OneText(name="e", value=t + str(r.randint(0, 99)))])
            raw = spell(o.to_xml(), r.choice([0, 2, 4, 6, 8, 16]))
            enc = "latin1" if all(ord(ch) < 256 for ch in raw) and r.random() < 0.5 else "utf-8"
            msgs_b.append(raw.encode(enc))
        stream = b"".join(msgs_b)
        ref = run(kind, msgs_b)
        expect = [view(m) for _, ms, _, _ in ref for m in ms]
        if len(expect) != len(msgs_b):
            expect = expect + [("<missing>",)] * (len(msgs_b) - len(expect))
        layout = []
        pos = 0
        for j, b in enumerate(msgs_b):
            body = b.rstrip()
            layout.append({"id": j + 1, "first": pos + 1, "last": pos + len(body)})
            pos += len(b)
        n = len(stream)
        plans = [[1] * n, [7] * (n // 7 + 1), [n]] if si < nstreams else [[1024] * (n // 1024 + 1), [n], [4096] * (n // 4096 + 1), [65536, n]]
        for _ in range((6 if tier == "quick" else 25) if si < nstreams else 1):
            k = r.randint(1, 10)
            cuts = sorted(r.sample(range(1, n), min(k, n - 1)))
            plans.append([b - a for a, b in zip([0] + cuts, cuts + [n])])
        # cuts inside every multi-byte character
        inside = [i for i in range(1, n) if stream[i] & 0xC0 == 0x80]
        for i in inside[: ((8 if tier == "quick" else 60) if si < nstreams else 0)]:
            plans.append([i, n - i])
        for plan in plans:
            chunks = []
            p = 0
            for ln in plan:
                if p >= n:
                    break
                chunks.append(stream[p:p + ln])
                p += ln
            calls = run(kind, chunks)
            nxt = 0
            ev = []
            for fed, ms, dlen, raised in calls:
                ids, gen = [], []
                for m in ms:
                    vw = view(m)
                    ident = 0
                    for j in range(nxt, len(expect)):
                        if expect[j] == vw:
                            ident = j + 1
                            nxt = j + 1
                            break
                    ids.append(ident)
                    gen.append(1 if ident else 0)      # content differs from every fragmentation-free delivery
                ev.append({"fed": fed, "ids": ids, "genuine": gen, "dlen": dlen, "raised": raised})
            out.append({"thr": -1 if kind == "blob" else 2048, "clean": 1, "msgs": layout, "ev": ev,
                        "text": f"[{kind} handler, {len(chunks)} reads] " + stream.decode("latin1")})
    return out


def run_into(v: Verdict, prop: str, tier: str) -> None:
    r = rng("framing")
    traces = handler_traces(r, tier)
    v.notes["handler_level_traces"] = len(traces)
    thrs_all = [16, 128, 2048, -1]
    for pieces in build_streams(r, tier):
        text_len = sum(len(t) for _, t in pieces)
        plans = list(cut_plans(r, text_len, tier))
        if len(plans) > (40 if tier == "quick" else 200):
            plans = plans[:3] + r.sample(plans[3:], (37 if tier == "quick" else 197))
        for cuts in plans:
            traces.append(run_stream(pieces, cuts, r.choice(thrs_all)))
    nshort = 0
    for pieces in short_streams(tier):
        n = sum(len(t) for _, t in pieces)
        for cuts in cut_plans(r, n, tier):
            nshort += 1
            traces.append(run_stream(pieces, cuts, [16, 128, 2048, -1][nshort % 4] if n > 16 else -1))
    v.notes["exhaustive_cut_partitions"] = nshort
    for pieces in truncation_streams(tier):
        n = sum(len(t) for _, t in pieces)
        for thr in ([128, -1] if tier == "quick" else thrs_all):
            traces.append(run_stream(pieces, [], thr))
            traces.append(run_stream(pieces, sorted(r.sample(range(1, n), 5)), thr))
    nclean = sum(t["clean"] for t in traces)
    v.notes["realworld"] = {"traces": len(traces), "clean_layouts": nclean, "dirty_layouts": len(traces) - nclean}
    for t in traces:
        for i, ev in enumerate(t["ev"]):
            v.evaluations += 1
            v.count_action("call_realworld")
            if ev["ids"] or ev["dlen"]:
                v.nontrivial(("rw", hash(t["text"]), t["thr"], ev["fed"], i))
    s = traces[len(traces) // 3]
    v.sample({"text": s["text"][:300], "thr": s["thr"], "clean": s["clean"], "msgs": s["msgs"], "calls": s["ev"][:4]})
    v.phase("run_real_buffer_realworld")
    slim = [{k: t[k] for k in ("thr", "clean", "msgs", "ev")} for t in traces]
    rej, gen, dist = tlc.validate_traces("TraceFraming", "TraceFraming.cfg", slim)
    v.traces_validated += len(traces) - len(rej)
    v.notes.setdefault("trace_validation", {})["realworld"] = {"traces": len(traces), "rejected": len(rej), "tlc_states": dist}
    for rj in rej[:25]:
        t = traces[rj.index]
        ev = t["ev"][rj.matched] if rj.matched < len(t["ev"]) else None
        v.violation(f"[realworld] Buffer call violates the framing contract: thr={t['thr']} clean={t['clean']} msgs={t['msgs']} "
                    f"call #{rj.matched + 1} observed {json.dumps(ev)[:300]} text={t['text'][:160]!r}",
                    {"kind": "realworld", "trace": t, "rejected_event_index": rj.matched})
    if len(rej) > 25:
        v.violations.extend(["(more)"] * (len(rej) - 25))
    v.phase("trace_validation_realworld")


def replay(prop: str, rp: dict, path: str) -> int:
    t = rp["trace"]
    print("stream:", repr(t["text"][:400]))
    print("rejected call:", json.dumps(t["ev"][rp["rejected_event_index"]])[:600])
    print(f"VIOLATION property={prop} replay={path}")
    return 1
