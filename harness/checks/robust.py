"""C12 at the transport level: hostile-but-well-formed client messages through the real TCP handler, the real TTY handler
and direct router calls, at every position of a session of valid traffic, against generated drivers.
Validated by TraceRobust.tla (contract Robust.tla)."""
from __future__ import annotations

import asyncio
import json
from typing import Any, Dict, List, Tuple

from .. import tlc
from ..fakes import FakeStdin, FakeStdout, FakeWriter, split_messages
from . import device as DV

from indi.transport.server import tcp as server_tcp   # noqa: E402
from indi.transport.server import tty as server_tty   # noqa: E402
from indi.routing import Client as RoutingClient      # noqa: E402


def catalogue(dep: dict, r) -> List[Tuple[str, str, List[Tuple[int, int]]]]:
    """(label, xml, validly named elements as (v, e)) for one deployment"""
    out = []
    v1 = dep["vecs"][0]
    dev = v1["dev"]

    def named(vi, names):
        v = dep["vecs"][vi - 1]
        if v["kind"] == "switch" and any(n in v["elems"] for n in names):
            return [(vi, i + 1) for i in range(len(v["elems"]))]       # "subject only to the property's switch rule"
        return [(vi, v["elems"].index(n) + 1) for n in names if n in v["elems"]]
    for vi, v in enumerate(dep["vecs"], start=1):
        d, n, e1 = v["dev"], v["name"], v["elems"][0]
        kind = v["kind"]
        good = {"text": "hello", "number": "1.5", "switch": "On", "light": "Ok", "blob": "QUJD"}[kind]
        own = {"text": "newTextVector", "number": "newNumberVector", "switch": "newSwitchVector", "light": "newTextVector", "blob": "newBLOBVector"}[kind]
        part = {"text": "oneText", "number": "oneNumber", "switch": "oneSwitch", "light": "oneText", "blob": "oneBLOB"}[kind]
        extra = ' size="3" format=".x"' if kind == "blob" else ""
        out.append(("unknown-device", f'<{own} device="NOSUCH" name="{n}"><{part} name="{e1}"{extra}>{good}</{part}></{own}>', []))
        out.append(("empty-device", f'<{own} device="" name="{n}"><{part} name="{e1}"{extra}>{good}</{part}></{own}>', []))
        out.append(("unknown-property", f'<{own} device="{d}" name="NOSUCH"><{part} name="{e1}"{extra}>{good}</{part}></{own}>', []))
        out.append(("unknown-element", f'<{own} device="{d}" name="{n}"><{part} name="nosuch"{extra}>{good}</{part}></{own}>', []))
        out.append(("no-children", f'<{own} device="{d}" name="{n}"/>', []))
        out.append(("duplicate-children", f'<{own} device="{d}" name="{n}"><{part} name="{e1}"{extra}>{good}</{part}><{part} name="{e1}"{extra}>{good}</{part}></{own}>',
                    named(vi, [e1])))
        out.append(("empty-value", f'<newTextVector device="{d}" name="{n}"><oneText name="{e1}"/></newTextVector>', named(vi, [e1])))
        for other, opart, oval in [("newTextVector", "oneText", "some text"), ("newNumberVector", "oneNumber", "12:30"), ("newSwitchVector", "oneSwitch", "Off")]:
            if other != own:
                out.append(("kind-mismatch", f'<{other} device="{d}" name="{n}"><{opart} name="{e1}">{oval}</{opart}></{other}>', named(vi, [e1])))
        if kind == "text":
            # bytes >= 0x80: the transports are Latin-1 (one character per byte); a peer may send any of them
            out.append(("latin1-bytes", f'<newTextVector device="{d}" name="{n}"><oneText name="{e1}">caf\xe9 \xff\xfe \xb0</oneText></newTextVector>', named(vi, [e1])))
            out.append(("lone-utf8-lead-byte", f'<newTextVector device="{d}" name="{n}"><oneText name="{e1}">\xc3</oneText></newTextVector>', named(vi, [e1])))
        if kind == "switch":
            out.append(("invalid-switch", f'<newSwitchVector device="{d}" name="{n}"><oneSwitch name="{e1}">Maybe</oneSwitch></newSwitchVector>', []))
        if kind == "number":
            out.append(("invalid-number", f'<newNumberVector device="{d}" name="{n}"><oneNumber name="{e1}">12abc</oneNumber></newNumberVector>', []))
            out.append(("odd-number", f'<newTextVector device="{d}" name="{n}"><oneText name="{e1}">1e400x</oneText></newTextVector>', []))
            # well-formed number texts far outside any range (the grammar puts no bound on the number of digits)
            for big in ("9" * 400, "9" * 400 + ".5", "-" + "9" * 330, "9" * 400 + ":30:00", "1" + "0" * 300, "-1" + "0" * 305 + ".25"):
                out.append(("huge-number", f'<newNumberVector device="{d}" name="{n}"><oneNumber name="{e1}">{big}</oneNumber></newNumberVector>', named(vi, [e1])))
            for odd in ("nan", "inf", "-Infinity", "1e5", "0x10"):
                out.append(("odd-number", f'<newTextVector device="{d}" name="{n}"><oneText name="{e1}">{odd}</oneText></newTextVector>', []))
        if kind == "blob":
            out.append(("blob-bad-base64", f'<newBLOBVector device="{d}" name="{n}"><oneBLOB name="{e1}" size="3" format=".x">!!!not base64</oneBLOB></newBLOBVector>', []))
            out.append(("blob-wrong-size", f'<newBLOBVector device="{d}" name="{n}"><oneBLOB name="{e1}" size="99" format=".x">QUJD</oneBLOB></newBLOBVector>', []))
            out.append(("blob-missing-size", f'<newBLOBVector device="{d}" name="{n}"><oneBLOB name="{e1}" format=".x">QUJD</oneBLOB></newBLOBVector>', []))
            out.append(("blob-nonnumeric-size", f'<newBLOBVector device="{d}" name="{n}"><oneBLOB name="{e1}" size="big" format=".x">QUJD</oneBLOB></newBLOBVector>', []))
            out.append(("blob-empty", f'<newBLOBVector device="{d}" name="{n}"><oneBLOB name="{e1}" size="4" format=".x"/></newBLOBVector>', []))
    # kinds a client should not send
    out += [("server-kind", f'<defTextVector device="{dev}" name="{v1["name"]}" state="Ok" perm="rw"><defText name="x">y</defText></defTextVector>', []),
            ("server-kind", f'<setTextVector device="{dev}" name="{v1["name"]}" state="Ok"><oneText name="{v1["elems"][0]}">zzz</oneText></setTextVector>', []),
            ("server-kind", f'<delProperty device="{dev}"/>', []), ("server-kind", f'<message device="{dev}" message="hi"/>', []),
            ("server-kind", '<pingRequest uid="1"/>', []), ("server-kind", '<pingReply uid="1"/>', []), ("server-kind", '<oneLight name="x">Ok</oneLight>', []),
            ("enable-unknown", '<enableBLOB device="NOSUCH">Also</enableBLOB>', []), ("enable-known", f'<enableBLOB device="{dev}">Also</enableBLOB>', []),
            ("enable-named", f'<enableBLOB device="{dev}" name="{v1["name"]}">Never</enableBLOB>', []), ("get-unknown", '<getProperties version="1.7" device="NOSUCH"/>', []),
            ("get-empty-device", '<getProperties version="1.7" device="" name="X"/>', [])]
    return out


class Rec(RoutingClient):
    def __init__(self):
        self.got = []

    def message_from_device(self, m):
        self.got.append(m)


def session(dep: dict, transport: str, items: List[Tuple[str, str, List[Tuple[int, int]]]], r) -> List[dict]:
    w = DV.World(dep)
    loop = w.loop
    try:
        other = Rec()
        w.router.register_client(other)
        wire = bytearray()
        if transport == "tcp":
            server_tcp.ConnectionHandler.connections = []
            reader = asyncio.StreamReader()
            writer = FakeWriter(loop)
            writer.auto_drain = True
            task = loop.create_task(server_tcp.ConnectionHandler.handler(w.router)(reader, writer))
            loop.settle()
            handler = server_tcp.ConnectionHandler.connections[0]
        elif transport == "tty":
            stdin, stdout = FakeStdin(loop), FakeStdout(loop)
            handler = server_tty.ConnectionHandler(w.router, stdin, stdout)
            task = loop.create_task(handler.handle())
            loop.settle()
        else:
            handler = Rec()
            if transport == "direct":
                w.router.register_client(handler)
            # transport "anon": a sender the router does not know (never registered, or already forgotten): its messages are
            # handled all the same and nothing may be raised; "registered" then means: it is still not registered
            task = None
        events = []

        def settle():
            for _ in range(200):
                loop.settle()
                if transport == "tty" and stdout.pending:
                    stdout.pending[0].complete()
                    continue
                break

        def output() -> List[str]:
            if transport == "tcp":
                return split_messages(bytes(writer.sink).decode("latin1"))
            if transport == "tty":
                return split_messages("".join(stdout.sink))
            return [m.to_string().decode() for m in (other.got if transport == "anon" else handler.got)]

        def send(xml: str) -> str:
            raised = ""
            try:
                if transport == "tcp":
                    reader.feed_data(xml.encode("latin1") + b"\n")
                elif transport == "tty":
                    stdin.feed(xml + "\n")
                else:
                    from indi.message import IndiMessage
                    asyncio.events._set_running_loop(loop)
                    try:
                        w.router.process_message(IndiMessage.from_string(xml), sender=handler)
                    finally:
                        asyncio.events._set_running_loop(None)
                settle()
            except Exception as e:
                raised = f"{type(e).__name__}: {e}"
            if task is not None and task.done():
                raised = raised or ("handler task ended: %r" % (task.exception() if not task.cancelled() else "cancelled"))
            if loop.unhandled:
                raised = raised or ("unhandled in loop: " + str(loop.unhandled[0].get("exception") or loop.unhandled[0].get("message")))
                del loop.unhandled[:]
            return raised

        def status():
            return {"registered": (handler in w.router.clients) != (transport == "anon"), "closed": bool(transport == "tcp" and writer.closed),
                    "othersOK": other in w.router.clients and w.client in w.router.clients}

        def snap():
            p = w.project()
            return {(vi + 1, ei + 1): x for vi, row in enumerate(p["val"]) for ei, x in enumerate(row)}, (p["vst"], p["ven"], p["gen"])
        for label, xml, allowed in items:
            if transport in ("direct", "anon"):
                try:
                    from indi.message import IndiMessage as _IM
                    _IM.from_string(xml)
                except Exception:
                    continue          # cannot exist as a message object: nothing to hand to the router directly
            before, meta = snap()
            raised = send(xml)
            after, meta2 = snap()
            changed = [f"{k[0]}.{k[1]}" for k in after if after[k] != before[k]] + (["meta"] if meta != meta2 else [])
            events.append({"k": "hostile", "label": label, "xml": xml, "raised": raised, **status(), "changed": changed,
                           "allowed": [f"{a}.{b}" for a, b in allowed], "ndefs": 0, "expected": 0})
            # a valid request afterwards on the same connection is processed normally
            d = r.choice(dep["devorder"])
            n0 = len(output())
            before, meta = snap()
            raised = send(f'<getProperties version="1.7" device="{d}"/>')
            after, meta2 = snap()
            new = output()[n0:]
            ndefs = sum(1 for x in new if "<def" in x[:60])
            pr = w.project()
            expected = sum(1 for vi, v in enumerate(dep["vecs"]) if v["dev"] == d and pr["ven"][vi])
            events.append({"k": "probe", "label": "getProperties " + d, "xml": "", "raised": raised, **status(),
                           "changed": [f"{k[0]}.{k[1]}" for k in after if after[k] != before[k]], "allowed": [], "ndefs": ndefs, "expected": expected})
        return events
    finally:
        w.close()


def run_into(v, tier: str, r) -> None:
    traces = []
    ndep = 10 if tier == "quick" else 150
    for i in range(ndep):
        dep = DV.random_dep(r)
        dep["hs"] = [h for h in dep["hs"] if not h["veto"] and h["refresh"] == DV.NOREFRESH]
        cat = catalogue(dep, r)
        r.shuffle(cat)
        per = 25 if tier == "quick" else 60
        always = [c for c in cat if c[0].startswith("enable") or c[0] in ("huge-number", "latin1-bytes", "lone-utf8-lead-byte")]
        for transport in ("tcp", "tty", "direct", "anon"):
            items = cat[:per] + [c for c in always if c not in cat[:per]]
            r.shuffle(items)
            traces.append(session(dep, transport, items, r))
    for t in traces:
        for e in t:
            v.evaluations += 1
            v.count_action("session:" + e["k"] + (":" + e["label"].split(" ")[0] if e["k"] == "hostile" else ""))
    v.notes["transport_sessions"] = len(traces)
    slim = [[{k: e[k] for k in ("k", "raised", "registered", "closed", "othersOK", "changed", "allowed", "ndefs", "expected")} for e in t] for t in traces]
    rej, gen, dist = tlc.validate_traces("TraceRobust", "TraceRobust.cfg", slim)
    v.traces_validated += len(traces) - len(rej)
    v.notes.setdefault("trace_validation", {})["sessions"] = {"traces": len(traces), "rejected": len(rej), "tlc_states": dist}
    for rj in rej[:25]:
        e = traces[rj.index][rj.matched]
        v.violation(f"session step #{rj.matched + 1} breaks the C12 contract: {e['label']} {e['xml'][:200]!r} -> "
                    f"{ {k: e[k] for k in ('raised', 'registered', 'closed', 'othersOK', 'changed', 'allowed', 'ndefs', 'expected')} }",
                    {"kind": "robust-session", "event": e})
