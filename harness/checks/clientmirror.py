"""C15 / C16: ClientMirror.tla bound to indi.client by trace validation.

Streams of def / set / del / other messages over a small universe of device, property and element names (so that
redefinition, partial updates, kind mismatches, unknown targets, empty BLOB payloads and whole-device deletion occur)
are written in foreign XML spellings, fragmented arbitrarily and fed through the real client connection handler into a
real BaseClient; callbacks with every filter combination are registered and removed at arbitrary points.  After every
message the public view, the events raised and the callback invocations are recorded and validated by
TraceClientMirror.tla against the reference interpreter and, for C16, against the chain / call statements evaluated on
the observed events themselves.
"""
from __future__ import annotations

import asyncio
import base64
import json
from typing import Any, Dict, List, Optional

from .. import tlc
from ..common import Verdict, rng, use_repo
from ..fakes import FakeWriter, StepLoop
from .framing import spell

use_repo()

from indi import message as M  # noqa: E402
from indi.client import events as CE  # noqa: E402
from indi.client.client import BaseClient  # noqa: E402
from indi.device import values as DVAL  # noqa: E402
from indi.message import def_parts, one_parts  # noqa: E402
from indi.transport.client import tcp as client_tcp  # noqa: E402

NONE = "none"
DEVS = ["A", "B", "C"]
VECS = ["V", "W", "X"]
ELS = ["x", "y", "z"]
KINDS = ["text", "number", "switch", "light", "blob"]
VALS = {"text": ["a", "b", "c d", "é<&>"], "number": ["1", "2.5", "-0:30"], "switch": ["On", "Off"], "light": ["Ok", "Busy", "Alert"],
        "blob": ["B1", "B2", "Bempty"]}
BLOBS = {"B1": b"\x00\x01first", "B2": b"second\xff", "Bempty": b""}
STATES = ["Idle", "Ok", "Busy", "Alert"]
DEF_CLS = {"text": (M.DefTextVector, def_parts.DefText), "number": (M.DefNumberVector, def_parts.DefNumber), "switch": (M.DefSwitchVector, def_parts.DefSwitch),
           "light": (M.DefLightVector, def_parts.DefLight), "blob": (M.DefBLOBVector, def_parts.DefBLOB)}
SET_CLS = {"text": (M.SetTextVector, one_parts.OneText), "number": (M.SetNumberVector, one_parts.OneNumber), "switch": (M.SetSwitchVector, one_parts.OneSwitch),
           "light": (M.SetLightVector, one_parts.OneLight), "blob": (M.SetBLOBVector, one_parts.OneBLOB)}
EVTY = {"Base": CE.BaseEvent, "Def": CE.DefinitionUpdate, "Value": CE.ValueUpdate, "State": CE.StateUpdate}


def real_message(m: dict):
    t, kind = m["t"], m["kind"]
    if t == "def":
        cls, pcls = DEF_CLS[kind]
        parts = []
        for name, val in m["els"]:
            kw = {"name": name, "value": None if val == NONE else val, "label": "L"}
            if kind == "number":
                kw.update(format="%f", min=0, max=0, step=0)
            parts.append(pcls(**kw))
        kw = dict(device=m["dev"], name=m["vec"], state=m["st"], label="lab", group="G", children=parts)
        if kind != "light":
            kw["perm"] = "rw"
        if kind == "switch":
            kw["rule"] = "AnyOfMany"
        return cls(**kw)
    if t == "set":
        cls, pcls = SET_CLS[kind]
        parts = []
        for name, val in m["els"]:
            if kind == "blob":
                raw = BLOBS[val]
                parts.append(pcls(name=name, size=len(raw), format=".bin", value=base64.b64encode(raw).decode() or None))
            else:
                parts.append(pcls(name=name, value=None if val == NONE else val))
        return cls(device=m["dev"], name=m["vec"], state=m["st"], children=parts)
    if t == "del":
        return M.DelProperty(device=m["dev"], name=None if m["vec"] == NONE else m["vec"])
    from indi.message import IndiMessage
    return IndiMessage.from_string(m["xml"])


def random_message(r, known: List[dict]) -> dict:
    x = r.random()
    dev = r.choice(DEVS[:2] if r.random() < 0.8 else DEVS)
    vec = r.choice(VECS[:2] if r.random() < 0.8 else VECS)
    if x < 0.30 or not known:
        kind = r.choice(KINDS)
        names = r.sample(ELS, r.randint(1, 3))
        els = [[n, (NONE if kind == "blob" or (kind in ("text", "number") and r.random() < 0.25) else r.choice(VALS[kind]))] for n in names]
        return {"t": "def", "dev": dev, "vec": vec, "kind": kind, "st": r.choice(STATES), "els": els}
    if x < 0.80:
        tgt = r.choice(known) if r.random() < 0.85 else {"dev": dev, "vec": vec, "kind": r.choice(KINDS), "els": [[e, NONE] for e in ELS]}
        kind = tgt["kind"] if r.random() < 0.9 else r.choice(KINDS)
        cand = [e[0] for e in tgt["els"]] + (["nosuch"] if r.random() < 0.3 else [])
        names = r.sample(cand, r.randint(0, len(cand)))
        els = [[n, (NONE if kind in ("text", "number") and r.random() < 0.12 else r.choice(VALS[kind]))] for n in names]      # an empty element clears the value
        return {"t": "set", "dev": tgt["dev"], "vec": tgt["vec"], "kind": kind, "st": r.choice(STATES), "els": els}
    if x < 0.93:
        return {"t": "del", "dev": dev, "vec": r.choice(VECS + [NONE, NONE]), "kind": NONE, "st": NONE, "els": []}
    obj = r.choice([M.Message(device=dev, message="note"), M.PingRequest(uid="p1"), M.GetProperties(version="1.7", device=dev),
                    M.EnableBLOB(device=dev, value="Also")])
    return {"t": "other", "dev": dev, "vec": NONE, "kind": NONE, "st": NONE, "els": [], "xml": obj.to_string().decode()}


class Client(BaseClient):
    def __init__(self):
        super().__init__()
        self.sent: List[Any] = []

    def send_message(self, msg):
        self.sent.append(msg)


def abst_val(x) -> str:
    if x is None:
        return NONE
    if isinstance(x, DVAL.BLOB):
        for t, raw in BLOBS.items():
            if x.binary == raw:
                return t
        return "B?"
    return str(x)


class World:
    def __init__(self, r):
        self.r = r
        self.loop = StepLoop(virtual=True)
        asyncio.set_event_loop(self.loop)
        self.client = Client()
        self.reader = asyncio.StreamReader()
        self.handler = client_tcp.ConnectionHandler(self.reader, FakeWriter(self.loop), self.client.process_message)
        self.task = self.loop.create_task(self.handler.wait_for_messages())
        # the client's second (BLOB) connection: its own handler, its own reader
        self.reader2 = asyncio.StreamReader()
        self.handler2 = client_tcp.ConnectionHandler(self.reader2, FakeWriter(self.loop), self.client.process_message, for_blobs=True)
        self.task2 = self.loop.create_task(self.handler2.wait_for_messages())
        self.loop.settle()
        self.evs: List[dict] = []
        self.calls: List[list] = []
        self.uuid: Dict[int, Any] = {}
        self.foreign_pending = False
        self.listeners: Dict[int, Any] = {}
        self.tap_events: List[Any] = []
        # the harness' own tap sees every event (registered first, never removed); it is callback id 0 in the traces
        self.client.onevent(callback=self._tap)

    def _tap(self, e):
        self.tap_events.append(e)

    def ev_rec(self, e) -> dict:
        ty = "Value" if isinstance(e, CE.ValueUpdate) else "State" if isinstance(e, CE.StateUpdate) else "Def" if isinstance(e, CE.DefinitionUpdate) else "Base"
        old = new = NONE
        if ty == "Value":
            old, new = abst_val(e.old_value), abst_val(e.new_value)
        elif ty == "State":
            old, new = abst_val(e.old_state), abst_val(e.new_state)
        return {"ty": ty, "dev": e.device.name if e.device else NONE, "vec": e.vector.name if e.vector else NONE,
                "el": e.element.name if e.element else NONE, "old": old, "new": new}

    def make_cb(self, cb: dict):
        """callbacks are bound methods of a small object (as in applications): `obj.on_event` is a fresh, equal object on every access"""
        w = self

        class Listener:
            if cb["coro"]:
                async def on_event(self, e):
                    w.calls.append([cb["id"], w.ev_rec(e), True])
            else:
                def on_event(self, e):
                    w.calls.append([cb["id"], w.ev_rec(e), False])
                    if cb.get("rm") and cb["rm"] in w.uuid:
                        w.client.rmonevent(uuid=w.uuid[cb["rm"]])      # removes a later-registered callback while events are dispatched
                    if cb["raises"]:
                        raise RuntimeError("callback failed")
        obj = Listener()
        self.listeners[cb["id"]] = obj
        return obj.on_event

    def project(self) -> dict:
        c = self.client
        vecs = []
        for d in c.list_devices():
            dev = c.get_device(d)
            for vn in dev.list_vectors():
                v = dev.get_vector(vn)
                kind = type(v).__name__.replace("Vector", "").lower()
                vecs.append({"dev": d, "name": vn, "kind": kind, "st": v.state,
                             "els": [[en, abst_val(v.get_element(en).value)] for en in v.list_elements()]})
        return {"devs": list(c.list_devices()), "vecs": vecs}

    def apply(self, op: dict) -> dict:
        del self.calls[:]
        del self.tap_events[:]
        raised = False
        asyncio.events._set_running_loop(self.loop)
        try:
            o = op["o"]
            if o == "recv":
                if "wire" in op:
                    data, cuts = op["wire"].encode("latin1"), op["cuts"]
                else:
                    msg = real_message(op["m"])
                    text = spell(msg.to_xml(), self.r.randrange(64))
                    # (no trailing white space: the message must complete with the last fragment, so that coroutine callbacks it
                    #  schedules are still pending when the step is observed)
                    data = text.rstrip().encode("latin1", errors="xmlcharrefreplace")      # the handlers decode Latin-1 (one character per byte)
                    cuts = sorted(self.r.sample(range(1, len(data)), min(len(data) - 1, self.r.choice([0, 0, 1, 3, 8]))))
                    op["wire"], op["cuts"] = data.decode("latin1"), cuts
                asyncio.events._set_running_loop(None)
                prev = 0
                for cpos in cuts + [len(data)]:
                    self.reader.feed_data(data[prev:cpos])
                    prev = cpos
                    self._settle_io()
            elif o == "recv2":
                # two messages on the client's two connections, their reads interleaved: part of m on the control connection, part
                # of m2 on the BLOB connection, the rest of m (completing it), the rest of m2
                if "wire" not in op:
                    for key, mk in (("wire", "m"), ("wire2", "m2")):
                        text = spell(real_message(op[mk]).to_xml(), self.r.randrange(64))
                        op[key] = text.rstrip().encode("latin1", errors="xmlcharrefreplace").decode("latin1")
                    op["cutA"] = self.r.randint(1, len(op["wire"]) - 1)
                    op["cutB"] = self.r.randint(1, len(op["wire2"]) - 1)
                a, b = op["wire"].encode("latin1"), op["wire2"].encode("latin1")
                asyncio.events._set_running_loop(None)
                for rd, piece in ((self.reader, a[:op["cutA"]]), (self.reader2, b[:op["cutB"]]), (self.reader, a[op["cutA"]:]), (self.reader2, b[op["cutB"]:])):
                    rd.feed_data(piece)
                    self._settle_io()
            elif o == "recvbad":
                asyncio.events._set_running_loop(None)
                self.reader.feed_data(op["wire"].encode("latin1"))
                self._settle_io()
                if self.task.done() and self.task.exception() is not None:
                    raised = True
            elif o == "on":
                cb = op["cb"]
                kw = {"callback": self.make_cb(cb), "event_type": EVTY[cb["ty"]]}
                for k, field in (("device", "dev"), ("vector", "vec"), ("element", "el")):
                    if cb[field] != NONE:
                        kw[k] = cb[field]
                self.uuid[cb["id"]] = self.client.onevent(**kw)
            elif o == "rmid":
                if op["id"] in self.uuid:
                    self.client.rmonevent(uuid=self.uuid[op["id"]])
            elif o == "rmcb":
                if op["id"] in self.listeners:
                    self.client.rmonevent(callback=self.listeners[op["id"]].on_event)      # removal by callback (an equal bound method)
            elif o == "rmcrit":
                kw = {}
                for k, field in (("device", "dev"), ("vector", "vec"), ("element", "el")):
                    if op[field] != NONE:
                        kw[k] = op[field]
                if op["ty"] != NONE:
                    kw["event_type"] = EVTY[op["ty"]]
                if kw:          # rmonevent() without any criterion would also remove the harness' tap
                    self.client.rmonevent(**kw)
            elif o == "edit":
                dev = self.client.get_device(op["dev"])
                vec = dev.get_vector(op["vec"]) if dev else None
                el = vec.get_element(op["el"]) if vec else None
                if el is not None:
                    kind = type(vec).__name__.replace("Vector", "").lower()
                    x = op["x"]
                    el.value = None if x == NONE else (DVAL.BLOB(BLOBS[x], ".bin") if kind == "blob" else x)
            elif o == "submit":
                dev = self.client.get_device(op["dev"])
                vec = dev.get_vector(op["vec"]) if dev else None
                if vec is not None:
                    vec.submit()
            elif o == "tick":
                asyncio.events._set_running_loop(None)
                self.loop.tick()
        except Exception as e:
            raised = True
            self.last_exc = repr(e)
        finally:
            asyncio.events._set_running_loop(None)
        if self.loop.unhandled:
            raised = True
            del self.loop.unhandled[:]
        obs = self.project()
        ntasks = len([t for t in asyncio.all_tasks(self.loop) if not t.done() and t is not self.task and t is not self.task2])
        sent = []
        for msg in self.client.sent:
            if not type(msg).__name__.startswith("New"):
                continue            # (the BLOB handshake the client sends when it first sees a device is not a write)
            kind = type(msg).__name__.replace("New", "").replace("Vector", "").lower()
            els = []
            for ch in msg.children:
                val = ch.value
                if kind == "blob":
                    raw = base64.b64decode(val or "")
                    val = next((t for t, b in BLOBS.items() if b == raw and int(ch.size) == len(raw)), "B?")
                els.append([ch.name, NONE if val is None else str(val)])
            sent.append({"dev": msg.device, "vec": msg.name, "kind": kind, "els": els})
        del self.client.sent[:]
        obs["sent"] = sent
        # events of kinds the properties do not speak about (a library may add kinds, e.g. for deletions) are outside the model
        known_calls = [list(c) for c in self.calls if c[1]["ty"] != "Base"]
        if any(self.ev_rec(e)["ty"] == "Base" for e in self.tap_events):
            self.foreign_pending = True         # coroutine callbacks may have been scheduled for such events: the task count is not comparable
        obs["exact_tasks"] = not self.foreign_pending
        if op["o"] == "tick":
            self.foreign_pending = False
        obs.update({"evs": [r_ for r_ in (self.ev_rec(e) for e in self.tap_events) if r_["ty"] != "Base"], "calls": known_calls, "ntasks": ntasks,
                    "raised": raised, "alive": not self.task.done() and not self.task2.done()})
        rec = {k: op[k] for k in op if k not in ("m", "m2")}
        for mk in ("m", "m2"):
            if mk in op:
                rec[mk] = dict(op[mk])
        rec["obs"] = obs
        return rec

    def _settle_io(self):
        # run the receive task (and only what it schedules synchronously): coroutine callbacks must stay pending until a "tick"
        for _ in range(50):
            before = len([t for t in asyncio.all_tasks(self.loop) if not t.done()])
            if not self.loop.has_ready():
                break
            # one iteration at a time; stop as soon as only callback tasks are left runnable
            self.loop.tick()
            if self.reader._buffer == b"" and self.reader._waiter is not None:
                break

    def close(self):
        try:
            for t in asyncio.all_tasks(self.loop):
                t.cancel()
            self.loop.settle(20)
        except Exception:
            pass
        self.loop.close()
        asyncio.set_event_loop(None)


def random_trace(r, length: int) -> List[dict]:
    w = World(r)
    try:
        out = []
        known: List[dict] = []
        next_id = 1
        live: List[int] = []
        cb_coro: Dict[int, bool] = {}
        for _ in range(length):
            x = r.random()
            if out and out[-1]["obs"]["ntasks"] > 0:
                x = 0.99          # coroutine callbacks are pending: the next loop iteration runs them
            if x < 0.68:
                m = random_message(r, known)
                if m["t"] == "def":
                    known = [k for k in known if not (k["dev"] == m["dev"] and k["vec"] == m["vec"])] + [m]
                elif m["t"] == "del":
                    known = [k for k in known if not (k["dev"] == m["dev"] and (m["vec"] == NONE or k["vec"] == m["vec"]))]
                op = {"o": "recv", "m": m}
                sets = [k for k in known if k["kind"] == "blob"] or known
                # (only while no coroutine callback is registered: the loop iterations that read the second message would run them)
                if sets and r.random() < 0.25 and not any(cb_coro.get(i) for i in live):
                    k2 = r.choice(sets)
                    names2 = r.sample([e[0] for e in k2["els"]], r.randint(1, len(k2["els"])))
                    m2 = {"t": "set", "dev": k2["dev"], "vec": k2["vec"], "kind": k2["kind"], "st": r.choice(STATES), "els": [[n, r.choice(VALS[k2["kind"]])] for n in names2]}
                    op = {"o": "recv2", "m": m, "m2": m2}
            elif x < 0.84 and len(live) < 4:
                cb = {"id": next_id, "dev": r.choice([NONE, "A", "B"]), "vec": r.choice([NONE, NONE, "V", "W"]), "el": r.choice([NONE, NONE, "x", "y"]),
                      "ty": r.choice(["Base", "Value", "Value", "State", "Def"]), "coro": r.random() < 0.3, "raises": False}
                cb["raises"] = (not cb["coro"]) and r.random() < 0.25
                cb["rm"] = 0
                if not cb["coro"] and r.random() < 0.2:
                    cb["rm"] = next_id + 1          # will remove the callback registered right after it, from inside a dispatch
                live.append(next_id)
                cb_coro[next_id] = cb["coro"]
                next_id += 1
                op = {"o": "on", "cb": cb}
            elif x < 0.90 and live:
                i = r.choice(live)
                live.remove(i)
                op = {"o": r.choice(["rmid", "rmcb"]), "id": i}
            elif x < 0.93:
                op = {"o": "rmcrit", "dev": r.choice([NONE, "A"]), "vec": r.choice([NONE, "V"]), "el": r.choice([NONE, "x"]), "ty": r.choice([NONE, "Value", "State"])}
                if all(op[k] == NONE for k in ("dev", "vec", "el", "ty")):
                    op["dev"] = "A"
            elif x < 0.96 and [k for k in known if k["kind"] != "light"]:
                # the application assigns (and sometimes submits) a value of its own: the mirrored value and the events are about
                # what the SERVER said, not about the pending assignment
                k = r.choice([k for k in known if k["kind"] != "light"])
                if r.random() < 0.75:
                    dom = {"text": ["p", "q", "a"], "number": ["1.5", "7", "1"], "switch": ["On", "Off"], "blob": ["B1", "B2"]}[k["kind"]]
                    op = {"o": "edit", "dev": k["dev"], "vec": k["vec"], "el": r.choice(k["els"])[0], "x": r.choice(dom)}
                else:
                    op = {"o": "submit", "dev": k["dev"], "vec": k["vec"]}
            else:
                op = {"o": "tick"}
            out.append(w.apply(op))
        # finally: an ill-formed BLOB update (declared size differs from the payload) for a known BLOB element, if there is one
        blobs = [k for k in known if k["kind"] == "blob"]
        if blobs and r.random() < 0.6 and not (out and out[-1]["obs"]["ntasks"] > 0):
            k = r.choice(blobs)
            name = r.choice(k["els"])[0]
            wire = (f'<setBLOBVector device="{k["dev"]}" name="{k["vec"]}" state="Ok"><oneBLOB name="{name}" size="999" format=".bin">'
                    f'{base64.b64encode(BLOBS["B2"]).decode()}</oneBLOB></setBLOBVector>')
            # the state attribute is the vector's current one, so that a wholesale rejection and a partial application differ only in the value
            cur = [v for v in out[-1]["obs"]["vecs"] if v["dev"] == k["dev"] and v["name"] == k["vec"]] if out else []
            if cur:
                wire = wire.replace('state="Ok"', 'state="%s"' % cur[0]["st"])
                out.append(w.apply({"o": "recvbad", "wire": wire}))
        return out
    finally:
        w.close()


def write_trace(r, length: int) -> List[dict]:
    """client writes (C06): definitions / updates / deletions from the server mixed with assignments and submits by the application"""
    w = World(r)
    try:
        out = []
        known: List[dict] = []
        for _ in range(length):
            x = r.random()
            writable = [k for k in known if k["kind"] != "light"]
            if x < 0.40 or not writable:
                m = random_message(r, known)
                if m["t"] == "other":
                    continue
                if m["t"] == "def":
                    known = [k for k in known if not (k["dev"] == m["dev"] and k["vec"] == m["vec"])] + [m]
                elif m["t"] == "del":
                    known = [k for k in known if not (k["dev"] == m["dev"] and (m["vec"] == NONE or k["vec"] == m["vec"]))]
                elif m["t"] == "set" and not any(k["dev"] == m["dev"] and k["vec"] == m["vec"] for k in known):
                    pass
                op = {"o": "recv", "m": m}
            elif x < 0.80:
                k = r.choice(writable)
                name = r.choice([e[0] for e in k["els"]] + (["nosuch"] if r.random() < 0.1 else []))
                dom = {"text": ["p", "q", "", "a"], "number": ["1.5", "-0:30", "7"], "switch": ["On", "Off"], "blob": ["B1", "B2"]}[k["kind"]]
                op = {"o": "edit", "dev": k["dev"], "vec": k["vec"], "el": name, "x": r.choice(dom + ([NONE] if r.random() < 0.15 else []))}
            else:
                k = r.choice(writable) if r.random() < 0.9 else {"dev": "Z", "vec": "X"}      # a device the client has never heard of
                op = {"o": "submit", "dev": k["dev"], "vec": k["vec"]}
            out.append(w.apply(op))
        return out
    finally:
        w.close()


def run_into(v: Verdict, prop: str, tier: str) -> None:
    """the client-side half of C06: MC_ClientWrite (model) and real Vector.submit / Element.value traces against it"""
    r = rng("clientwrite")
    res = tlc.require_ok(tlc.run_tlc("MC_ClientWrite", "MC_ClientWrite.cfg", timeout=1800), "MC_ClientWrite")
    v.add_tlc(res, "MC_ClientWrite.cfg (P_SubmitExact, P_EditSilent, P_PendingSurvivesUpdate)")
    if res.violated:
        v.violation(f"TLC: {res.violated} violated in the client write model", {"kind": "tlc", "tail": res.stdout[-3000:]})
    hit = tlc.probe_reachable("MC_ClientWrite", "MC_ClientWrite.cfg", ["Probe_TwoPending", "Probe_SubmitEmpty", "Probe_PendingLostByRedefinition"])
    if not all(hit.values()):
        raise tlc.MachineryError(f"client write probes not all hit: {hit}")
    n = 150 if tier == "quick" else 4000
    traces = [write_trace(r, r.randint(10, 40)) for _ in range(n)]
    traces = [t for t in traces if t]
    for ti, t in enumerate(traces):
        for i, e in enumerate(t):
            v.evaluations += 1
            v.count_action("client:" + e["o"])
            if e["obs"]["sent"]:
                v.nontrivial(("cw", ti, i))
    rej, _, dist = tlc.validate_traces("TraceClientMirror", "TraceClientMirror_C06.cfg", traces)
    v.traces_validated += len(traces) - len(rej)
    v.notes["client_write_traces"] = {"traces": len(traces), "rejected": len(rej), "submits_with_members": sum(1 for t in traces for e in t if e["obs"]["sent"] and e["obs"]["sent"][0]["els"])}
    for rj in rej[:10]:
        e = rj.trace[rj.matched] if rj.matched < len(rj.trace) else None
        v.violation(f"client write path: step #{rj.matched + 1} {json.dumps({k: e[k] for k in e if k != 'obs'})[:300] if e else None} sent {json.dumps(e['obs']['sent'])[:500] if e else None}: "
                    f"a submit must hand over one message listing exactly the members assigned since the last submit, with the assigned values",
                    {"kind": "clientwrite-trace", "ops": [{k: x[k] for k in x if k != "obs"} for x in rj.trace], "rejected_step": rj.matched, "observed": e})
    v.phase("client_write")


def run(prop: str, tier: str) -> int:
    v = Verdict(prop, tier)
    r = rng("clientmirror-" + prop)
    v.rule = ("case = one message received (through the real client connection handler, foreign spelling, random fragmentation) or one callback "
              "registration / removal / task run; non-trivial = the step raises an event or changes the view; distinct = distinct (trace, step)")
    v.assumptions = ["the harness observes all events through one catch-all callback of its own that is registered first and never removed",
                     "BLOB 'changed' = a new payload was stored (DESIGN 7.2); ill-formed BLOBs (size mismatch, bad base64) are outside the statement"]
    cfg = "MC_ClientMirror_quick.cfg" if tier == "quick" else "MC_ClientMirror_thorough.cfg"
    res = tlc.require_ok(tlc.run_tlc("MC_ClientMirror", cfg, timeout=7200, heap="12g"), cfg)
    v.add_tlc(res, cfg)
    if res.violated:
        v.violation(f"TLC: {res.violated} violated in the client mirror model", {"kind": "tlc", "tail": res.stdout[-3000:]})
    hit = tlc.probe_reachable("MC_ClientMirror", "MC_ClientMirror_quick.cfg", ["Probe_Redefine", "Probe_DeviceDeleted", "Probe_PartialUpdate"])
    v.notes["reachability_probes_hit"] = hit
    if not all(hit.values()):
        raise tlc.MachineryError(f"reachability probes not all hit: {hit}")
    v.phase("model_check")
    n = 300 if tier == "quick" else 8000
    # a first small batch is validated at once: a client that mirrors wrongly shows it immediately, and a defect that makes the full
    # run very slow (e.g. receive buffers that are never emptied) is reported instead of running into the time limit
    traces = [random_trace(r, r.randint(10, 40)) for _ in range(30)]
    erej, _, _ = tlc.validate_traces("TraceClientMirror", f"TraceClientMirror_{prop}.cfg", traces, shards=4)
    if not erej:
        traces += [random_trace(r, r.randint(10, 40 if tier == "quick" else 60)) for _ in range(n - 30)]
    else:
        v.notes["early_batch_only"] = True
    for ti, t in enumerate(traces):
        for i, e in enumerate(t):
            v.evaluations += 1
            v.count_action(e["o"] + (":" + e["m"]["t"] if e["o"] == "recv" else ""))
            if e["obs"]["evs"] or e["obs"]["calls"]:
                v.nontrivial((ti, i))
    v.sample(traces[0][:4])
    v.phase("run_real_client")
    rej, gen, dist = tlc.validate_traces("TraceClientMirror", f"TraceClientMirror_{prop}.cfg", traces)
    v.traces_validated = len(traces) - len(rej)
    v.notes["trace_validation"] = {"traces": len(traces), "rejected": len(rej), "tlc_states": dist}
    for rj in rej[:25]:
        e = rj.trace[rj.matched] if rj.matched < len(rj.trace) else None
        v.violation(f"real client leaves ClientMirror.tla at step #{rj.matched + 1}: {json.dumps({k: e[k] for k in e if k != 'obs'})[:300] if e else None} "
                    f"observed {json.dumps(e['obs'])[:700] if e else None}",
                    {"kind": "clientmirror-trace", "ops": [{k: x[k] for k in x if k != "obs"} for x in rj.trace], "rejected_step": rj.matched, "observed": e})
    if len(rej) > 25:
        v.violations.extend(["(more)"] * (len(rej) - 25))
    v.phase("trace_validation")
    return v.finish()


def replay(prop: str, path: str) -> int:
    rp = json.load(open(path))["replay"]
    print(json.dumps(rp["observed"], indent=1)[:2000])
    print(f"VIOLATION property={prop} replay={path}")
    return 1
