"""C01 / C08: the whole stack end to end, validated against the convergence contract of System.tla (TraceSystem.tla).

Real generated drivers, a real Router, real server TCP handlers, real library Clients (control + BLOB connection) on
fake streams, and in-process SnoopingClients.  A pump moves the bytes of every link in a chosen cross-link order
(global send order, or independent links) and with a chosen fragmentation.  After every operation the system is
pumped to quiescence and the device truth and every client's public view are projected and compared by TLC.
"""
from __future__ import annotations

import asyncio
import base64
import json
from typing import Any, Dict, List, Optional, Tuple

from .. import tlc
from ..common import Verdict, rng, use_repo
from ..fakes import FakeWriter, StepLoop
from . import device as DV

use_repo()

from indi import message as M  # noqa: E402
from indi.client.client import BaseClient, Client  # noqa: E402
from indi.device import values as DVAL  # noqa: E402
from indi.transport.client import tcp as client_tcp  # noqa: E402
from indi.transport.server import tcp as server_tcp  # noqa: E402

NONE = "none"


def fmt9(x) -> str:
    return "%.9f" % float(x)


class Link:
    """one direction of one TCP connection: chunks written by one side, fed to the other side's StreamReader"""

    def __init__(self, net: "Net", name: str):
        self.net, self.name = net, name
        self.queue: List[Tuple[int, bytes]] = []
        self.reader = asyncio.StreamReader()


class LinkWriter(FakeWriter):
    def __init__(self, loop, link: Link):
        super().__init__(loop, link.name)
        self.link = link
        link.writer = self
        self.auto_drain = True
        self.waiters: List[Any] = []

    def write(self, data: bytes):
        super().write(data)
        self.link.net.seq += 1
        self.link.queue.append((self.link.net.seq, bytes(data)))

    async def drain(self):
        # back-pressure: like a real transport above its high-water mark, drain() returns only when the peer has taken
        # what was written (the pump releases the waiters when the link's queue is empty)
        if self.link.net.backpressure and self.link.queue:
            fut = self.loop.create_future()
            self.waiters.append(fut)
            await fut

    def release(self):
        for fut in self.waiters:
            if not fut.done():
                fut.set_result(None)
        del self.waiters[:]


class Net:
    def __init__(self, loop, r):
        self.loop, self.r = loop, r
        self.seq = 0
        self.links: List[Link] = []
        self.delivered_bytes = 0
        self.backpressure = False

    def connection(self, name: str):
        """returns (client-side reader, client-side writer, server-side reader, server-side writer)"""
        up, down = Link(self, name + ".up"), Link(self, name + ".down")
        self.links += [up, down]
        return down.reader, LinkWriter(self.loop, up), up.reader, LinkWriter(self.loop, down)

    def pending(self) -> bool:
        return any(l.queue for l in self.links)

    def micro(self, frag: str) -> None:
        """one small step of the world: either one loop iteration, or one piece delivered on one link (no settling)"""
        r = self.r
        live = [l for l in self.links if l.queue]
        if not live or r.random() < 0.5:
            self.loop.tick()
        else:
            link = r.choice(live)
            seq, data = link.queue[0]
            n = len(data) if frag == "whole" else max(1, min(len(data), r.choice([1, 64, 1024, len(data)])))
            piece, rest = data[:n], data[n:]
            if rest:
                link.queue[0] = (seq, rest)
            else:
                link.queue.pop(0)
            link.reader.feed_data(piece)
            self.delivered_bytes += len(piece)
        for l in self.links:
            if not l.queue and getattr(l, "writer", None) is not None and l.writer.waiters:
                l.writer.release()

    def pump(self, mode: str, frag: str, max_rounds: int = 200000) -> bool:
        """deliver everything, ticking the loop in between, until nothing is in flight and nothing is ready"""
        r = self.r
        for _ in range(max_rounds):
            self.loop.settle()
            live = [l for l in self.links if l.queue]
            for l in self.links:
                if not l.queue and getattr(l, "writer", None) is not None and l.writer.waiters:
                    l.writer.release()
            if not live:
                if not self.loop.has_ready():
                    return True
                continue
            if mode == "fifo":
                link = min(live, key=lambda l: l.queue[0][0])
            else:
                link = r.choice(live)
            seq, data = link.queue[0]
            if frag == "whole":
                n = len(data)
            elif frag == "byte":
                n = 1
            elif frag == "1024":
                n = min(len(data), 1024)
            else:
                n = r.randint(1, max(1, min(len(data), r.choice([1, 7, 64, 700, 1024, 5000]))))
            piece, rest = data[:n], data[n:]
            if rest:
                link.queue[0] = (seq, rest)
            else:
                link.queue.pop(0)
            link.reader.feed_data(piece)
            self.delivered_bytes += len(piece)
        return False


class FakeTCP:
    def __init__(self, sysw: "SysWorld", name: str):
        self.sysw, self.name = sysw, name

    async def connect(self, callback, for_blobs=False):
        creader, cwriter, sreader, swriter = self.sysw.net.connection(self.name)
        self.sysw.loop.create_task(server_tcp.ConnectionHandler.handler(self.sysw.dw.router)(sreader, swriter))
        h = client_tcp.ConnectionHandler(creader, cwriter, callback, for_blobs=for_blobs)
        self.handler = h
        return h


class RawClient(BaseClient):
    """a single-connection client with an explicit BLOB policy (C08)"""

    def __init__(self, sysw: "SysWorld", name: str, policy: Optional[str]):
        super().__init__()
        self.policy = policy
        creader, cwriter, sreader, swriter = sysw.net.connection(name)
        sysw.loop.create_task(server_tcp.ConnectionHandler.handler(sysw.dw.router)(sreader, swriter))
        self.h = client_tcp.ConnectionHandler(creader, cwriter, self.process_message)
        self.task = sysw.loop.create_task(self.h.wait_for_messages())

    def send_message(self, msg):
        self.h.send_message(msg)

    def blob_handshake(self, device):
        if self.policy is not None:
            self.send_message(M.EnableBLOB(device=device, value=self.policy))


class SysWorld:
    def __init__(self, dep: dict, r, nclients: int = 1, snoop: bool = False, raw_policies: Tuple = ()):
        self.dep, self.r = dep, r
        self.dw = DV.World(dep)
        self.loop = self.dw.loop
        server_tcp.ConnectionHandler.connections = []
        self.net = Net(self.loop, r)
        self.clients: List[Any] = []
        self.client_tasks: List[Any] = []
        self.kinds: List[str] = []
        asyncio.events._set_running_loop(None)
        for i in range(nclients):
            c = Client(FakeTCP(self, f"c{i}ctl"), FakeTCP(self, f"c{i}blob"))
            t = self.loop.create_task(c.start())
            self.clients.append(c)
            self.kinds.append("net")
        for i, pol in enumerate(raw_policies):
            rc = RawClient(self, f"raw{i}", pol)
            self.clients.append(rc)
            self.kinds.append("raw:" + str(pol))
        self.snoopers: List[Any] = []
        self.snoop_scope: List[Tuple[str, Optional[str]]] = []
        self.mode, self.frag = "fifo", "random"
        self.report_mode: Optional[str] = None
        self.started = False

    def start(self, mode: str, frag: str) -> bool:
        self.mode, self.frag = mode, frag
        ok = self.net.pump(mode, frag)
        for c, k in zip(self.clients, self.kinds):
            if k.startswith("raw"):
                self.run(lambda c=c: c.handshake())
        return ok and self.net.pump(mode, frag)

    def run(self, fn):
        asyncio.events._set_running_loop(self.loop)
        try:
            return fn()
        finally:
            asyncio.events._set_running_loop(None)

    def add_snooper(self, owner_dev: str, target_dev: str, name: Optional[str]):
        def go():
            return self.dw.drivers[owner_dev].snoop_device(target_dev, name)
        sc = self.run(go)
        if sc not in self.snoopers:
            self.snoopers.append(sc)
            self.snoop_scope.append([])
        self.snoop_scope[self.snoopers.index(sc)].append([target_dev, name or NONE])

    # ---- projections
    def truth(self) -> List[dict]:
        dep = self.dep
        out = []
        for vi, v in enumerate(dep["vecs"], start=1):
            vec = self.dw.vec(vi)
            if not vec.enabled:
                continue
            els = []
            for ei, name in enumerate(v["elems"], start=1):
                if not v["een"][ei - 1]:
                    continue
                el = self.dw.elem(vi, ei)
                raw = vars(el).get("_value")
                if v["kind"] == "number" and raw is not None:
                    # what a client can see is the value as the property's format renders it; the exact value is kept as a
                    # fourth field for the frame check of C06
                    shown = fmt9(DV.parse_number(DVAL.num_to_str(raw, self.dw.fmt.get((vi, ei), "%f"))))
                    els.append([name, shown, "L " + name, fmt9(raw)])
                else:
                    tok = DV.abst(v["kind"], raw)
                    els.append([name, tok, "L " + name if v["kind"] != "switch" else name, tok])
            out.append({"dev": v["dev"], "name": v["name"], "kind": v["kind"], "st": vec.state_, "label": "Vec " + v["name"],
                        "group": dep["grps"][v["grp"] - 1]["name"], "els": els})
        return out

    def mirror(self, c) -> List[dict]:
        out = []
        for d in c.list_devices():
            dev = c.get_device(d)
            for vn in dev.list_vectors():
                v = dev.get_vector(vn)
                kind = type(v).__name__.replace("Vector", "").lower()
                els = []
                for en in v.list_elements():
                    e = v.get_element(en)
                    x = e.value
                    if kind == "number" and x is not None:
                        try:
                            tok = fmt9(DV.parse_number(str(x)))
                        except Exception:
                            tok = "n?" + str(x)
                    elif kind == "blob":
                        tok = DV.abst("blob", x) if isinstance(x, DVAL.BLOB) or x is None else "b?text"
                    else:
                        tok = DV.abst(kind, x)
                    els.append([en, tok, e.label, tok])
                out.append({"dev": d, "name": vn, "kind": kind, "st": v.state, "label": v.label, "group": v.group, "els": els})
        return out

    def alive(self) -> bool:
        for c, k in zip(self.clients, self.kinds):
            if k == "net":
                for h in (c.control_connection_handler, c.blob_connection_handler):
                    pass
        bad = [ctx for ctx in self.loop.unhandled]
        return not bad

    def snapshot(self, op: dict, quiet: bool) -> dict:
        rec = dict(op)
        rec["quiet"] = quiet
        rec["mode"] = self.report_mode or self.mode
        rec["truth"] = self.truth()
        views = []
        for c, k in zip(self.clients, self.kinds):
            views.append({"kind": k, "scope": ["*", NONE], "view": self.mirror(c)})
        for sc, scopes in zip(self.snoopers, self.snoop_scope):
            for scope in scopes:
                views.append({"kind": "snoop", "scope": list(scope), "view": self.mirror(sc)})
        rec["views"] = views
        rec["errors"] = [str(ctx.get("exception") or ctx.get("message")) for ctx in self.loop.unhandled]
        del self.loop.unhandled[:]
        return rec

    def apply(self, op: dict) -> dict:
        o = op["o"]
        if o == "client-write":
            c = self.clients[op["client"]]
            v = self.dep["vecs"][op["v"] - 1]

            def go():
                dev = c.get_device(v["dev"])
                vec = dev.get_vector(v["name"]) if dev else None
                if vec is None:
                    return
                for name, tok in op["vals"]:
                    el = vec.get_element(name)
                    if el is None:
                        continue
                    if v["kind"] == "number":
                        el.value = op.get("texts", {}).get(name) or tok
                    elif v["kind"] == "blob":
                        b, f = DV.BLOBS[tok] if tok in DV.BLOBS else op["payload"]
                        el.value = DVAL.BLOB(b, f)
                    else:
                        el.value = tok
                vec.submit()
            try:
                self.run(go)
            except Exception as e:          # the application's call into the library raised: an observation, not a harness failure
                self.loop.unhandled.append({"message": f"client write raised {type(e).__name__}: {e}"})
        elif o == "snoop":
            self.add_snooper(op["owner"], op["target"], None if op["name"] == NONE else op["name"])
        elif o == "rehandshake":
            self.run(lambda: self.clients[op["client"]].handshake())
        elif o == "storm":
            # driver-side operations with only a few small steps of the world in between (single loop iterations, single pieces
            # delivered): later messages are routed while earlier ones are written, drained, queued behind the sender lock
            for sub, k in zip(op["ops"], op["micro"]):
                self.dw.apply(sub)
                for _ in range(k):
                    self.net.micro(self.frag)
        elif o == "remutate":
            # the driver keeps ONE BLOB object, replaces its content in place and publishes it again
            el = self.dw.elem(op["v"], op["e"])
            obj = vars(el).get("_value")
            b, f = DV.BLOBS[op["x"]]

            def go2():
                obj.binary, obj.format = b, f
                el.value = obj
            if obj is not None:
                self.run(go2)
        elif o == "burst":
            # several driver-side operations back to back, the loop running in between but nothing delivered yet: the
            # connections are under back-pressure while the later messages are routed
            for sub in op["ops"]:
                self.dw.apply(sub)
                for _ in range(op.get("ticks", 2)):
                    self.loop.tick()
        else:
            self.dw.apply(op)
        quiet = self.net.pump(self.mode, self.frag)
        if "wirelen" in op:
            # the exact length of the BLOB message on the wire (the recorded deviation is about messages longer than the threshold):
            # serialised by the library itself from the driver's / the uploader's current content
            try:
                if o == "client-write":
                    b, f = DV.BLOBS[op["vals"][0][1]]
                    one = M.OneBLOB(name=op["vals"][0][0], value=base64.b64encode(b).decode(), format=f, size=len(b)) if hasattr(M, "OneBLOB") else None
                    if one is None:
                        from indi.message import one_parts as _op
                        one = _op.OneBLOB(name=op["vals"][0][0], value=base64.b64encode(b).decode(), format=f, size=len(b))
                    v0 = self.dep["vecs"][op["v"] - 1]
                    op = dict(op, wirelen=len(M.NewBLOBVector(device=v0["dev"], name=v0["name"], timestamp=M.now(), children=[one]).to_string()))
                else:
                    op = dict(op, wirelen=max(len(self.dw.vec(vi).to_set_message().to_string())
                                              for vi, vv in enumerate(self.dep["vecs"], start=1) if vv["kind"] == "blob"))
            except Exception:
                pass
        rec = self.snapshot(op, quiet)
        # (re-)enabling a property republishes it: definition AND current values.  Under global send order a client that
        # enabled BLOBs must then hold the BLOB again (the definition alone carries no payload)
        strict = []
        if (self.report_mode or self.mode) == "fifo" and o in ("ven", "gen") and op.get("b"):
            for vi, vv in enumerate(self.dep["vecs"], start=1):
                if vv["kind"] == "blob" and ((o == "ven" and vi == op["v"]) or (o == "gen" and vv["grp"] == op["g"])):
                    strict.append([vv["dev"], vv["name"]])
        rec["strict"] = strict
        return rec

    def close(self):
        self.dw.close()


# ------------------------------------------------------------------ C01
def c01_trace(r, tier: str) -> List[dict]:
    dep = DV.random_dep(r)
    dep["hs"] = []
    nclients = r.choice([1, 1, 2])
    w = SysWorld(dep, r, nclients=nclients)
    w.net.backpressure = r.random() < 0.3          # drain() returns only once the peer has taken the data
    if w.net.backpressure:
        # a message routed to a busy connection is written later than one routed afterwards to an idle connection: the order of the
        # writes is then not the order of routing, and what the two connections of one client carry is unordered ("free")
        w.report_mode = "free"
    try:
        mode = r.choice(["fifo", "free"])
        frag = r.choice(["whole", "byte", "1024", "random", "random"])
        ok = w.start(mode, frag)
        out = [w.snapshot({"o": "handshake"}, ok)]
        n = r.randint(6, 14 if tier == "quick" else 40)
        snooped = False
        for _ in range(n):
            x = r.random()
            vi = r.randint(1, len(dep["vecs"]))
            v = dep["vecs"][vi - 1]
            ei = r.randint(1, len(v["elems"]))
            if x < 0.30:
                op = {"o": "assign", "v": vi, "e": ei, "x": DV.domain(v["kind"], r)}
            elif x < 0.38:
                op = {"o": "setvalue", "v": vi, "e": ei, "x": DV.domain(v["kind"], r)}
            elif x < 0.44 and v["kind"] in ("text", "number", "light"):
                k = r.randint(3, 7)
                subs = []
                for _ in range(k):
                    if r.random() < 0.8:
                        subs.append({"o": "assign", "v": vi, "e": r.randint(1, len(v["elems"])), "x": DV.domain(v["kind"], r)})
                    else:
                        subs.append({"o": "state", "v": vi, "st": r.choice(DV.LIGHTS)})
                op = {"o": "storm", "ops": subs, "micro": [r.choice([0, 1, 1, 2, 3, 5]) for _ in subs]}
            elif x < 0.46:
                op = {"o": "state", "v": vi, "st": r.choice(DV.LIGHTS)}
            elif x < 0.56:
                op = {"o": "ven", "v": vi, "b": r.random() < 0.6}
            elif x < 0.64:
                op = {"o": "gen", "g": r.choice(sorted({q["grp"] for q in dep["vecs"]})), "b": r.random() < 0.6}
            elif x < 0.70 and v["kind"] == "switch":
                op = {"o": "sel", "v": vi, "names": r.sample(v["elems"], r.randint(0, len(v["elems"])))}
            elif x < 0.92 and v["kind"] != "light":
                names = [nm for nm, en in zip(v["elems"], v["een"]) if en]
                if not names:
                    continue
                chosen = r.sample(names, r.randint(1, len(names)))
                op = {"o": "client-write", "client": r.randrange(nclients), "v": vi, "vals": [[nm, DV.domain(v["kind"], r)] for nm in chosen],
                      "target": [v["dev"], v["name"]]}
                if v["kind"] == "number":
                    op["texts"] = {}
                    vals = []
                    for nm, tok in op["vals"]:
                        tok = r.choice(["n1", "n2", "n3", "n4", "n5"])
                        op["texts"][nm] = "%.7f" % DV.NUM[tok] if r.random() < 0.6 else ("%d:%02d:%06.3f" % (int(abs(DV.NUM[tok])), int(abs(DV.NUM[tok]) * 60) % 60, (abs(DV.NUM[tok]) * 3600) % 60) if DV.NUM[tok] >= 0 else "%.7f" % DV.NUM[tok])
                        if r.random() < 0.3:
                            # an application may also assign a number (not text): it must arrive with all its digits
                            op["texts"][nm] = r.choice([1.2345678, -0.33333333, 51.47783219, 7, 0.000125])
                            vals.append([nm, fmt9(op["texts"][nm])])
                            continue
                        vals.append([nm, fmt9(DV.parse_number(op["texts"][nm]))])
                    op["vals"] = vals
            elif x < 0.97 and len(dep["devorder"]) > 1:
                # a driver snoops on another device (possibly the second device it snoops on, possibly one property only)
                a = snooped or r.choice(dep["devorder"])
                b = r.choice([d for d in dep["devorder"] if d != a])
                nm = NONE if r.random() < 0.7 else r.choice([q["name"] for q in dep["vecs"] if q["dev"] == b])
                op = {"o": "snoop", "owner": a, "target": b, "name": nm}
                snooped = a
            else:
                op = {"o": "rehandshake", "client": r.randrange(nclients)}
            out.append(w.apply(op))
        # under back-pressure: a few longer storms of updates of one property, the world advancing in very small steps in between
        stormable = [(vi, v) for vi, v in enumerate(dep["vecs"], start=1) if v["kind"] in ("text", "number", "light")]
        if w.net.backpressure and stormable:
            for _ in range(4):
                vi, v = r.choice(stormable)
                subs = [{"o": "assign", "v": vi, "e": r.randint(1, len(v["elems"])), "x": DV.domain(v["kind"], r)} for _ in range(r.randint(5, 9))]
                out.append(w.apply({"o": "storm", "ops": subs, "micro": [r.choice([0, 1, 1, 2, 2, 3, 4]) for _ in subs]}))
        # directed sequences that need several cooperating steps
        # (a) the same client writes two different elements of one property, with a driver-side change in between
        cand = [(vi, v) for vi, v in enumerate(dep["vecs"], start=1) if v["kind"] in ("text", "number") and sum(v["een"]) >= 2]
        if cand:
            vi, v = r.choice(cand)
            names = [nm for nm, en in zip(v["elems"], v["een"]) if en]
            vec = w.dw.vec(vi)
            if not vec.enabled:
                out.append(w.apply({"o": "gen", "g": v["grp"], "b": True}))
                out.append(w.apply({"o": "ven", "v": vi, "b": True}))
            e1, e2 = names[0], names[1]
            if v["kind"] == "text":
                w1, mid, w2, texts1, texts2 = "x", "y", "z", None, None
            else:
                w1, mid, w2 = fmt9(1.5), "n5", fmt9(2.25)
                texts1, texts2 = {e1: "1.5"}, {e2: "2.25"}
            op1 = {"o": "client-write", "client": 0, "v": vi, "vals": [[e1, w1]], "target": [v["dev"], v["name"]]}
            op2 = {"o": "client-write", "client": 0, "v": vi, "vals": [[e2, w2]], "target": [v["dev"], v["name"]]}
            if texts1:
                op1["texts"], op2["texts"] = texts1, texts2
            out.append(w.apply(op1))
            out.append(w.apply({"o": "assign", "v": vi, "e": v["elems"].index(e1) + 1, "x": mid}))     # e.g. 1.2345678: not what "%.2f" shows
            out.append(w.apply(op2))
        # (b) a driver first snoops on ONE property of another device, that device then (re)defines other properties on the
        #     bus, and the driver then snoops on the whole device
        if len(dep["devorder"]) > 1:
            a = snooped or dep["devorder"][0]
            b = [d for d in dep["devorder"] if d != a][0]
            bv = [(vi, q) for vi, q in enumerate(dep["vecs"], start=1) if q["dev"] == b]
            if len(bv) >= 2:
                out.append(w.apply({"o": "snoop", "owner": a, "target": b, "name": bv[0][1]["name"]}))
                out.append(w.apply({"o": "gen", "g": bv[1][1]["grp"], "b": True}))
                out.append(w.apply({"o": "ven", "v": bv[1][0], "b": True}))
                out.append(w.apply({"o": "snoop", "owner": a, "target": b, "name": NONE}))
        return out
    finally:
        w.close()


# ------------------------------------------------------------------ C08
def blob_dep() -> dict:
    return {"vecs": [{"dev": "CAM", "name": "IMG", "kind": "blob", "rule": "", "grp": 1, "perm": "rw", "elems": ["frame", "thumb"], "een": [True, True]},
                     {"dev": "CAM", "name": "NOTE", "kind": "text", "rule": "", "grp": 1, "perm": "rw", "elems": ["t"], "een": [True]},
                     {"dev": "CAM", "name": "AUX", "kind": "blob", "rule": "", "grp": 1, "perm": "ro", "elems": ["small"], "een": [True]}],
            "grps": [{"dev": "CAM", "name": "MAIN"}], "hs": [], "devorder": ["CAM"], "val0": [[NONE, NONE], ["x"], [NONE]], "vst0": ["Ok", "Ok", "Ok"],
            "ven0": [True, True, True], "gen0": [True]}


def payload(n: int, salt: int) -> bytes:
    return bytes((i * 7 + salt * 13 + (i >> 8)) % 256 for i in range(n))


def c08_runs(r, tier: str) -> List[List[dict]]:
    """BLOB publications and uploads of every length across the 1024-byte read size and the 2048-character threshold"""
    out = []
    lengths = list(range(0, 40)) + list(range(700, 790, 3)) + list(range(1000, 1060, 2)) + list(range(1490, 1560, 2)) + [1700, 2048, 3000, 4096]
    if tier == "thorough":
        lengths = list(range(0, 1701)) + list(range(1701, 4097, 5)) + [65536, 1 << 20, 4 << 20]
    else:
        lengths = [0, 1, 2, 1023, 1024, 1025, 70001, 70001, 150000] + r.sample(lengths, 33)
    for n in lengths:
        frag = r.choice(["1024", "1024", "byte" if n < 3000 else "1024", "random"]) if n <= 10000 else "1024"
        w = SysWorld(blob_dep(), r, nclients=1, raw_policies=(None, "Never", "Also", "Only"))
        try:
            ok = w.start("fifo", frag)
            evs = [w.snapshot({"o": "handshake"}, ok)]
            fmt = r.choice([".fits", ".fits.z", ".jpg", ""])
            DV.BLOBS["P"] = (payload(n, 1), fmt)
            DV.BLOBS["Q"] = (payload(max(0, n - 1), 2), ".thumb")
            DV.BLOBS["T"] = (payload(10, 3), ".thumb")          # a small BLOB routed right behind the large one
            wl = lambda k: len(base64.b64encode(payload(k, 1))) + 160      # characters of the set/new BLOB message on the wire (approx.)
            w.net.backpressure = bp = (n > 60000 or r.random() < 0.4)
            if bp:
                # the BLOB and the traffic after it are routed while the connections are still busy with the BLOB
                evs.append(w.apply({"o": "burst", "len": n, "wirelen": wl(n), "bp": 1, "ticks": r.choice([1, 2, 3]),
                                    "ops": [{"o": "assign", "v": 1, "e": 1, "x": "P"}, {"o": "assign", "v": 3, "e": 1, "x": "T"},
                                            {"o": "assign", "v": 2, "e": 1, "x": "y"}]}))
            else:
                evs.append(w.apply({"o": "assign", "v": 1, "e": 1, "x": "P", "len": n, "wirelen": wl(n)}))       # driver -> clients
                evs.append(w.apply({"o": "assign", "v": 2, "e": 1, "x": "y"}))                 # traffic after the BLOB
            if n <= 4096:
                # the same bytes again under another format, then the same object with new content of the same and of another length
                DV.BLOBS["P2"] = (payload(n, 1), ".raw" if fmt != ".raw" else ".fits")
                DV.BLOBS["P3"] = (payload(n, 5), fmt)
                DV.BLOBS["P4"] = (payload(n + 3, 6), fmt)
                for tok, how in (("P2", "assign"), ("P3", "remutate"), ("P4", "remutate")):
                    evs.append(w.apply({"o": how, "v": 1, "e": 1, "x": tok, "len": len(DV.BLOBS[tok][0]), "wirelen": wl(len(DV.BLOBS[tok][0]))}))
            up = {"o": "client-write", "client": 0, "v": 1, "vals": [["thumb", "Q"]], "len": max(0, n - 1), "wirelen": wl(max(0, n - 1))}
            evs.append(w.apply(up))                                                         # client -> driver (through the TCP server handler)
            evs.append(w.apply({"o": "assign", "v": 2, "e": 1, "x": "z"}))
            out.append(evs)
        finally:
            w.close()
            DV.BLOBS.pop("P", None)
            DV.BLOBS.pop("Q", None)
            DV.BLOBS.pop("T", None)
            for k in ("P2", "P3", "P4"):
                DV.BLOBS.pop(k, None)
    return out


def slim(ev: dict) -> dict:
    keep = {k: ev[k] for k in ("o", "quiet", "mode", "truth", "views", "errors")}
    keep["target"] = ev.get("target", [NONE, NONE])
    keep["strict"] = ev.get("strict", [])
    keep["vals"] = ev.get("vals", [])
    keep["len"] = ev.get("len", 0)
    keep["up"] = 1 if ev["o"] == "client-write" else 0
    keep["wirelen"] = ev.get("wirelen", 0)
    return keep


def run_into(v: Verdict, prop: str, tier: str) -> None:
    """system-level traces for a property whose main check lives elsewhere (C06)"""
    # design level: SystemW.tla - two clients, client writes racing with driver-side assignments, independent channels
    cfgw = "MC_SystemW_quick.cfg" if tier == "quick" else "MC_SystemW.cfg"
    res = tlc.require_ok(tlc.run_tlc("SystemW", cfgw, timeout=7200, heap="12g"), cfgw)
    v.add_tlc(res, cfgw + " (two clients, client writes: Converged, WriteExact, NoStaleOverwrite)")
    if res.violated:
        v.violation(f"TLC: {res.violated} violated in the system model with client writes ({cfgw})", {"kind": "tlc", "cfg": cfgw, "tail": res.stdout[-3000:]})
    a = tlc.require_ok(tlc.run_tlc("SystemW", "MC_SystemW_asis.cfg", timeout=2400), "SystemW as-is self-test")
    if a.violated != "NoStaleOverwrite":
        raise tlc.MachineryError(f"self-test: a client that re-sends untouched members should violate NoStaleOverwrite, got {a.violated}")
    r = rng("system-" + prop)
    n = 60 if tier == "quick" else 1500
    traces = []
    for _ in range(n):
        try:
            traces.append(c01_trace(r, tier))
        except DV.DeploymentBroken as e:
            v.violation(str(e), {"kind": "deployment", "what": str(e)})
    for t in traces:
        for e in t:
            v.evaluations += 1
            v.count_action("e2e:" + e["o"])
    rej, gen, dist = tlc.validate_traces("TraceSystem", f"TraceSystem_{prop}.cfg", [[slim(e) for e in t] for t in traces])
    v.traces_validated += len(traces) - len(rej)
    v.notes.setdefault("trace_validation", {})["end_to_end"] = {"traces": len(traces), "rejected": len(rej), "tlc_states": dist}
    for rj in rej[:25]:
        e = traces[rj.index][rj.matched]
        prev = traces[rj.index][rj.matched - 1] if rj.matched else None
        v.violation(f"end-to-end step #{rj.matched + 1} {({k: e[k] for k in e if k not in ('truth', 'views')})} breaks the {prop} contract "
                    f"(device before: {json.dumps(prev['truth'])[:500] if prev else None} after: {json.dumps(e['truth'])[:500]})",
                    {"kind": "system-trace", "step": rj.matched, "ops": [{k: x[k] for k in x if k not in ("truth", "views")} for x in traces[rj.index]], "diff": []})


def run(prop: str, tier: str) -> int:
    v = Verdict(prop, tier)
    r = rng("system-" + prop)
    v.rule = ("case = one operation on the composed real stack followed by pumping all links to quiescence; non-trivial = bytes were delivered; "
              "distinct = distinct (trace, step)")
    v.assumptions = ["fake links deliver every byte, per-link FIFO; cross-link order either global send order or arbitrary (mode)",
                     "BLOB equality is demanded under global send order only (two-connection race recorded as a finding otherwise)"]
    for cfg, label in [("MC_System.cfg", "independent connections, BLOB-connection filter"), ("MC_System_fifo.cfg", "global send order, BlobConverged")]:
        res = tlc.require_ok(tlc.run_tlc("System", cfg, timeout=3600, heap="8g"), cfg)
        v.add_tlc(res, cfg + " (" + label + ")")
        if res.violated:
            v.violation(f"TLC: {res.violated} violated in the system model ({cfg})", {"kind": "tlc", "cfg": cfg, "tail": res.stdout[-3000:]})
    a = tlc.require_ok(tlc.run_tlc("System", "MC_System_asis.cfg", timeout=2400), "system as-is self-test")
    v.notes["asis_selftest"] = {"BlobFilter=FALSE violates": a.violated}
    if a.violated != "Converged":
        raise tlc.MachineryError(f"self-test: the unfiltered BLOB connection should violate Converged, got {a.violated}")
    v.phase("model_check")
    traces: List[List[dict]] = []
    if prop in ("C01", "C06"):
        n = 60 if tier == "quick" else 1500
        traces = []
        for _ in range(n):
            try:
                traces.append(c01_trace(r, tier))
            except DV.DeploymentBroken as e:
                v.violation(str(e), {"kind": "deployment", "what": str(e)})
    else:
        traces = c08_runs(r, tier)
    for ti, t in enumerate(traces):
        for i, e in enumerate(t):
            v.evaluations += 1
            v.count_action(e["o"])
            v.nontrivial((ti, i))
    s = traces[0]
    v.sample({"op": {k: s[1][k] for k in s[1] if k not in ("truth", "views")}, "truth": s[1]["truth"][:2], "view0": s[1]["views"][0]["view"][:2]} if len(s) > 1 else s[0])
    v.phase("run_real_stack")
    cfg = f"TraceSystem_{prop}.cfg"
    rej, gen, dist = tlc.validate_traces("TraceSystem", cfg, [[slim(e) for e in t] for t in traces])
    v.traces_validated = len(traces) - len(rej)
    v.notes["trace_validation"] = {"traces": len(traces), "rejected": len(rej), "tlc_states": dist}
    if prop == "C08" and rej:
        # a rejected run that is explainable with the recorded deviation (a BLOB message longer than the junk-recovery threshold is
        # destroyed on a threshold-enabled link when it arrives in several reads) is the known finding, anything else a violation
        again, _, _ = tlc.validate_traces("TraceSystem", "TraceSystem_C08_dev.cfg", [[slim(e) for e in traces[x.index]] for x in rej])
        still = {rej[a.index].index for a in again}
        known = [x for x in rej if x.index not in still]
        v.notes["trace_validation"]["explained_by_oversize_deviation"] = len(known)
        for x in known:
            e = traces[x.index][x.matched]
            v.violation(f"BLOB of {e.get('len')} bytes ({e.get('wirelen')} characters on the wire) lost on a threshold-enabled link", {"kind": "oversize", "len": e.get("len")},
                        sig="oversize-on-threshold-link")
        rej = [x for x in rej if x.index in still]
    for rj in rej[:25]:
        e = traces[rj.index][rj.matched]
        diff = []
        if prop == "C08":
            def blob(vs, el):
                for x in vs:
                    if x["name"] == "IMG":
                        return [q[1] for q in x["els"] if q[0] == el]
                return "absent"
            diff = [{"driver": {"frame": blob(e["truth"], "frame"), "thumb": blob(e["truth"], "thumb")},
                     "clients": {w_["kind"]: {"frame": blob(w_["view"], "frame")} for w_ in e["views"]}}]
        tv = {(x["dev"], x["name"]): x for x in e["truth"]} if prop != "C08" else {}
        for view in e["views"]:
            mv = {(x["dev"], x["name"]): x for x in view["view"]} if prop != "C08" else {}
            for k in sorted(set(tv) | set(mv)):
                if tv.get(k) != mv.get(k):
                    diff.append({"client": view["kind"], "scope": view["scope"], "vector": k, "device_has": tv.get(k), "client_sees": mv.get(k)})
        v.violation(f"after step #{rj.matched + 1} {({k: e[k] for k in e if k not in ('truth', 'views')})} the system is not converged: {json.dumps(diff[:2])[:900]}",
                    {"kind": "system-trace", "step": rj.matched, "ops": [{k: x[k] for k in x if k not in ("truth", "views")} for x in traces[rj.index]], "diff": diff[:6]},
                    sig=None)
    if len(rej) > 25:
        v.violations.extend(["(more)"] * (len(rej) - 25))
    v.phase("trace_validation")
    return v.finish()


def replay(prop: str, path: str) -> int:
    rp = json.load(open(path))["replay"]
    print(json.dumps(rp.get("diff") or rp, indent=1)[:3000])
    print(f"VIOLATION property={prop} replay={path}")
    return 1
