"""C10: Numbers.tla bound to indi.device.values.num_to_str / str_to_num and the message validator.

 * TLC checks the theorems of Numbers.tla (Inverse, InRange, SelfOK, ParseBack for the three separators)
   on the complete resolution grids and exports the grammar corpus with each string's exact denotation;
 * every corpus string goes through the real validator and the real parser (all formats) and is compared
   with TLC's denotation;
 * real renderings of grid, off-grid (carry points), (-1,0) and large values are tokenised and judged by
   TLC (NumbersJudge.tla: RenderOK / PrintfOK on exact limbs), together with the parse-back value.
"""
from __future__ import annotations

import json
import os
import re
import shutil
from concurrent.futures import ThreadPoolExecutor
from fractions import Fraction
from typing import Any, Dict, List, Optional, Tuple

from .. import tlc
from ..common import Verdict, rng, use_repo

use_repo()

from indi.device import values as V  # noqa: E402
from indi.message import one_parts  # noqa: E402

UPW = {3: 60, 5: 600, 6: 3600, 8: 36000, 9: 360000}
_SEXA = re.compile(r"^(-?)(\d+)[:; ](\d\d)(?:\.(\d+))?(?:[:; ](\d\d)(?:\.(\d+))?)?$", re.ASCII)
_DEC = re.compile(r"^([-+]?)(\d+)(?:\.(\d*))?$", re.ASCII)


def limbs(x: float, scale: int) -> Tuple[int, int, int]:
    """float -> (neg, whole, fraction scaled by `scale`), exact then rounded to the nearest 1/scale."""
    fr = Fraction(x)
    neg = 1 if fr < 0 else 0
    a = abs(fr)
    w = int(a)
    r = round((a - w) * scale)
    if r >= scale:
        w, r = w + 1, r - scale
    return neg, w, int(r)


def tokenise_sexa(text: str, f: int) -> Optional[Dict[str, int]]:
    m = _SEXA.match(text)
    if not m:
        return None
    sign, whole, mm, mfrac, ss, sfrac = m.groups()
    want = {3: (False, 0, False), 5: (False, 1, False), 6: (True, 0, False), 8: (True, 0, True), 9: (True, 0, True)}[f]
    has_ss = ss is not None
    if has_ss != want[0]:
        return None
    frs = (sfrac if has_ss else mfrac) or ""
    nd = {3: 0, 5: 1, 6: 0, 8: 1, 9: 2}[f]
    if (mfrac and has_ss):
        return None
    frv = int((frs + "00")[:nd]) if nd else 0
    return {"neg": 1 if sign else 0, "whole": int(whole), "mm": int(mm), "ss": int(ss or 0), "fr": frv}


class LiveNumber:
    """one real driver with a two-element number property of the given format, and a router that records what it publishes"""

    def __init__(self, fmt: str):
        from indi.device import Driver, properties
        from indi.routing import Router
        from indi import message as M
        self.M = M
        self.got: List[Any] = []
        outer = self

        class Sink:
            def message_from_device(self, message):
                outer.got.append(message)
        self.router = Router()
        self.sink = Sink()
        self.router.register_client(self.sink)
        el = properties.Number("a", label="a", default=0.0, format=fmt, min=-1e9, max=1e9, step=0)
        sib = properties.Number("b", label="b", default=0.0, format=fmt, min=-1e9, max=1e9, step=0)
        vec = properties.NumberVector("NUM", elements={"a": el, "b": sib}, label="num", perm="rw", timeout=0, state="Idle")
        cls = type("LiveNum", (Driver,), {"name": "LIVE", "main": properties.Group("MAIN", vectors={"num": vec})})
        self.drv = cls(router=self.router)
        self.n = 0

    def text_after(self, how: str, x: float) -> str:
        vec = self.drv.main.num
        self.n += 1
        del self.got[:]
        if how == "assign":
            vec.a.value = x
        elif how == "client":
            self.router.process_message(self.M.NewNumberVector(device="LIVE", name="NUM", children=[one_parts.OneNumber(name="a", value="%.9f" % x)]), sender=self.sink)
        else:
            vec.a.reset_value(x)
            if how == "reset+state":
                vec.state_ = ["Ok", "Busy"][self.n % 2]
            elif how == "reset+sibling":
                vec.b.value = float(self.n)
            elif how == "reset+get":
                self.router.process_message(self.M.GetProperties(version="1.7", device="LIVE", name="NUM"), sender=self.sink)
            else:
                vec.enabled = False
                del self.got[:]
                vec.enabled = True
        for m in reversed(self.got):
            for ch in getattr(m, "children", []) or []:
                if ch.name == "a" and ch.__class__.__name__ in ("OneNumber", "DefNumber"):
                    return str(ch.value)
        raise AssertionError(f"nothing published for element a after {how}")


def run(prop: str, tier: str) -> int:
    v = Verdict(prop, tier)
    r = rng("numbers")
    v.rule = ("case = one (format, value) rendering or one (grammar string, format) parse executed on the real functions; "
              "non-trivial = value not an integer or text sexagesimal; distinct = distinct (format, value/text) pairs")
    v.assumptions = ["floats are converted to exact limbs with fractions.Fraction (rounded to 1/10 unit resp. 1e-6) before TLC judges them",
                     "tolerance is one unit of the format's last place (DESIGN 7.2); exponent notation and formats other than d/f/m are outside"]
    wd = tlc.scratch_dir("num-")
    try:
        cfg = "MC_Numbers_quick.cfg" if tier == "quick" else "MC_Numbers_thorough.cfg"
        res = tlc.require_ok(tlc.run_tlc("MC_Numbers", cfg, env={"OUT_DIR": wd}, workdir=wd, timeout=7200, heap="12g"), "Numbers MC")
        v.add_tlc(res, cfg)
        if res.violated:
            v.violation(f"TLC: {res.violated} fails on the number model", {"kind": "tlc", "tail": res.stdout[-3000:]})
        corpus = json.load(open(os.path.join(wd, "corpus.json")))
    finally:
        shutil.rmtree(wd, ignore_errors=True)
    v.phase("model_check")

    # ---- parsing: every corpus string x every format
    fmts = ["%f", "%d", "%.3m", "%.5m", "%10.6m", "%.8m", "%12.9m", "%6.2f", "%+.3f"]
    nparse = 0
    for c in corpus:
        if not c["ok"]:
            continue
        text, want = c["text"], Fraction(c["v"], 360000)
        v.count_action("parse")
        try:
            one_parts.OneNumber(name="n", value=text)
        except Exception as e:
            v.violation(f"validator rejects INDI number text {text!r}: {type(e).__name__}", {"kind": "validator", "text": text})
            continue
        for fmt in fmts:
            v.evaluations += 1
            nparse += 1
            try:
                got = V.str_to_num(text, fmt)
                bad = abs(Fraction(got) - want) > Fraction(1, 10**9) * max(1, abs(want))
            except Exception as e:
                v.violation(f"str_to_num({text!r}, {fmt!r}) raised {type(e).__name__}: {e}", {"kind": "parse", "text": text, "fmt": fmt})
                break
            if bad:
                v.violation(f"str_to_num({text!r}, {fmt!r}) = {got!r}, the text denotes {float(want)!r}",
                            {"kind": "parse", "text": text, "fmt": fmt, "expected_360000": c["v"]})
                break
        if ":" in text or ";" in text or " " in text or "." in text:
            v.nontrivial(("parse", text))
    v.notes["corpus"] = {"strings": len(corpus), "valid": sum(1 for c in corpus if c["ok"]), "parses": nparse}
    v.sample({"corpus_string": corpus[len(corpus) // 2]})
    v.phase("parse_corpus")

    # ---- rendering observations
    obs: List[dict] = []
    inputs: Dict[int, Any] = {}

    def add_m(f: int, width: str, x: float, via=None):
        fmt = f"%{width}.{f}m"
        v.evaluations += 1
        v.count_action(f"render:.{f}m" + (":element" if via else ""))
        oid = len(obs) + 1
        try:
            text = via(x, fmt) if via else V.num_to_str(x, fmt)
        except Exception as e:
            v.violation(f"num_to_str({x!r}, {fmt!r}) raised {type(e).__name__}: {e}", {"kind": "render", "value": x, "fmt": fmt})
            return
        fields = tokenise_sexa(text, f) if isinstance(text, str) else None
        if fields is None:
            v.violation(f"num_to_str({x!r}, {fmt!r}) = {text!r} is not sexagesimal text of that format", {"kind": "render", "value": x, "fmt": fmt})
            return
        try:
            one_parts.OneNumber(name="n", value=text)
            back = V.str_to_num(text, fmt)
        except Exception as e:
            v.violation(f"own rendering {text!r} of {x!r} ({fmt}) is rejected: {type(e).__name__}: {e}", {"kind": "render", "value": x, "fmt": fmt, "text": text})
            return
        neg, W, r10 = limbs(x, 10 * UPW[f])
        bneg, bW, br10 = limbs(float(back), 10 * UPW[f])
        obs.append({"id": oid, "t": "m", "f": f, "neg": neg, "W": W, "r10": r10, "x": fields, "bneg": bneg, "bW": bW, "br10": br10})
        inputs[oid] = {"value": x, "fmt": fmt, "text": text, "parse_back": back}
        if r10 or neg:
            v.nontrivial(("m", f, x))

    n_grid = 4000 if tier == "quick" else 60000
    n_big = 1500 if tier == "quick" else 30000
    for f, upw in UPW.items():
        grid_full = f == 3 or (tier == "thorough" and f == 5)
        us = range(-360 * upw, 360 * upw + 1) if grid_full else [r.randint(-360 * upw, 360 * upw) for _ in range(n_grid)]
        for u in us:
            add_m(f, "", u / upw)
        # carry points and their neighbourhoods, off-grid by tenths of a unit; negatives in (-1, 0)
        for base in [0, upw, 13 * upw, 359 * upw, 60 * (upw // 60) * 7]:
            for du in (-2, -1, 0, 1, 2):
                for d in range(-4, 5):
                    for sgn in (1, -1):
                        add_m(f, r.choice(["", "10", "12"]), sgn * (base + du + d / 10) / upw)
        for _ in range(n_grid // 4):
            add_m(f, r.choice(["", "10"]), -r.random())
            add_m(f, "", r.uniform(-360, 360))
        for _ in range(n_big):
            add_m(f, "", r.uniform(-1e9, 1e9))
            add_m(f, "", float(r.randint(-10**9, 10**9)))

    def add_p(fmt: str, prec: int, x, via=None):
        v.evaluations += 1
        v.count_action("render:printf" + (":element" if via else ""))
        oid = len(obs) + 1
        try:
            text = via(x, fmt) if via else V.num_to_str(x, fmt)
            m = _DEC.match(text)
        except Exception as e:
            v.violation(f"num_to_str({x!r}, {fmt!r}) raised {type(e).__name__}: {e}", {"kind": "render", "value": x, "fmt": fmt})
            return
        if not m:
            v.violation(f"num_to_str({x!r}, {fmt!r}) = {text!r} is not decimal number text", {"kind": "render", "value": x, "fmt": fmt})
            return
        try:
            one_parts.OneNumber(name="n", value=text)
            back = V.str_to_num(text, fmt)
        except Exception as e:
            v.violation(f"own rendering {text!r} of {x!r} ({fmt}) is rejected: {type(e).__name__}: {e}", {"kind": "render", "value": x, "fmt": fmt, "text": text})
            return
        neg, W, f6 = limbs(float(x), 10**6)
        bneg, bW, bf6 = limbs(float(back), 10**6)
        frac = (m.group(3) or "")
        t6 = int((frac + "000000")[:6])
        obs.append({"id": oid, "t": "p", "prec": prec, "neg": neg, "W": W, "f6": f6,
                    "tneg": 1 if m.group(1) == "-" else 0, "twhole": int(m.group(2)), "t6": t6, "bneg": bneg, "bW": bW, "bf6": bf6})
        inputs[oid] = {"value": x, "fmt": fmt, "text": text, "parse_back": back}
        if f6:
            v.nontrivial(("p", fmt, x))

    pf = []
    for flags in ["", "-", "+", " ", "0"]:
        for width in ["", "1", "6", "10"]:
            pf.append((f"%{flags}{width}d", 0))
            for prec in [None, 0, 1, 2, 3, 6]:
                pf.append((f"%{flags}{width}" + ("" if prec is None else f".{prec}") + "f", 6 if prec is None else prec))
    v.notes["printf_formats"] = len(pf)
    n_p = 40 if tier == "quick" else 600
    for fmt, prec in pf:
        vals = [0, 1, -1, 7, 0.5, -0.5, -0.25, 0.999, 0.9995, 0.99995, 0.9999995, 1.5, 2.5, -2.5, 59.95, 59.5, 12345678, -12345678.125,
                0.000001, -0.000001, 1e9, -1e9, 999999.9999995]
        vals += [r.uniform(-1, 1) for _ in range(n_p // 4)] + [r.uniform(-1000, 1000) for _ in range(n_p // 2)]
        vals += [r.uniform(-1e9, 1e9) for _ in range(n_p // 4)] + [r.randint(-10**6, 10**6) for _ in range(n_p // 8)]
        for x in vals:
            add_p(fmt, prec, x)
    v.sample({"observation": obs[len(obs) // 3], "input": inputs[obs[len(obs) // 3]["id"]]})
    v.phase("render_real")

    # ---- the same judgement for what a live Number element puts on the wire (instance/elements.py): the element takes a
    # history of values - by assignment, by reset_value (a driver refreshing it silently) and by a client write - and after each
    # of them the text it publishes must denote the value it holds NOW
    n_el = 60 if tier == "quick" else 600
    for fmt, prec in [("%.3m", None), ("%10.6m", None), ("%.9m", None), ("%.2f", 2), ("%8.3f", 3), ("%d", 0), ("%f", 6)]:
        live = LiveNumber(fmt)
        f = int(fmt[-2]) if fmt.endswith("m") else None
        width = fmt[1:fmt.index(".")] if f else ""
        for i in range(n_el):
            x = r.choice([r.uniform(-360, 360), r.uniform(-1, 1), float(r.randint(-500, 500)), r.uniform(-900, 900), 59.9999, -0.0004])
            how = ["assign", "reset+state", "reset+sibling", "reset+get", "reset+def", "client"][i % 6 if r.random() < 0.7 else r.randrange(6)]
            via = (lambda x, fmt, how=how: live.text_after(how, x))
            n0 = len(obs)
            if f:
                add_m(f, width, x, via=via)
            else:
                add_p(fmt, prec, x, via=via)
            if len(obs) > n0:
                inputs[obs[-1]["id"]]["element_history_step"] = how
    v.phase("render_element")

    # ---- TLC judges
    wd = tlc.scratch_dir("numj-")
    try:
        k = 16
        shards = [s for s in (obs[i::k] for i in range(k)) if s]

        def judge(i_s):
            i, s = i_s
            sub = os.path.join(wd, str(i))
            os.makedirs(sub)
            path = os.path.join(sub, "obs.json")
            json.dump(s, open(path, "w"))
            res = tlc.run_tlc("NumbersJudge", "NumbersJudge.cfg", workers=1, env={"OBS_FILE": path}, workdir=sub, timeout=3000, heap="3g")
            tlc.require_ok(res, "NumbersJudge")
            mj = re.search(r'<<"JUDGED", (\d+)>>', res.stdout)
            if not mj or int(mj.group(1)) != len(s):
                raise tlc.MachineryError("NumbersJudge did not judge the whole batch: " + res.stdout[-2000:])
            return [int(x) for x in re.findall(r'<<"BADNUM", (\d+)>>', res.stdout)]
        bad: List[int] = []
        with ThreadPoolExecutor(max_workers=k) as ex:
            for ids in ex.map(judge, enumerate(shards)):
                bad.extend(ids)
    finally:
        shutil.rmtree(wd, ignore_errors=True)
    v.traces_validated = len(obs) - len(bad)
    v.notes["judged_renderings"] = len(obs)
    seen = set()
    for i in sorted(bad):
        key = (inputs[i]["fmt"],)
        if key in seen and len(seen) > 30:
            continue
        seen.add(key)
        if len(v.violations) < 60:
            who = (f"a live Number element holding {inputs[i]['value']!r} (format {inputs[i]['fmt']!r}) published, after '{inputs[i]['element_history_step']}',"
                   if "element_history_step" in inputs[i] else f"num_to_str({inputs[i]['value']!r}, {inputs[i]['fmt']!r}) =")
            v.violation(f"{who} {inputs[i]['text']!r} (parses back to "
                        f"{inputs[i]['parse_back']!r}): not within one unit of the value / fields out of range",
                        {"kind": "render", **inputs[i]})
    v.phase("tlc_judge")
    return v.finish()


def replay(prop: str, path: str) -> int:
    rp = json.load(open(path))["replay"]
    if rp["kind"] == "parse":
        print("str_to_num ->", end=" ")
        try:
            print(repr(V.str_to_num(rp["text"], rp["fmt"])))
        except Exception as e:
            print("raised", type(e).__name__, e)
    elif rp["kind"] == "render":
        try:
            print("num_to_str ->", repr(V.num_to_str(rp["value"], rp["fmt"])))
        except Exception as e:
            print("raised", type(e).__name__, e)
    elif rp["kind"] == "validator":
        try:
            one_parts.OneNumber(name="n", value=rp["text"])
            print("validator accepts")
            return 0
        except Exception as e:
            print("validator rejects", e)
    print("(re-run ./check C10 for the verdict)")
    return 1
