"""C03 / C13 / C20: Codec.tla bound to indi.message by one implementation test per TLC-generated case.

TLC (CodecCases.tla, sharded by message kind) enumerates the bounded grammar, checks the declarative
theorems (RoundTrip, Idempotent, OnlyConformant, EqIffSame) on every case and exports the cases with
the expected abstract result.  Every case is concretised (several real strings per value class),
executed on the real classes, and the observed result is compared with TLC's expectation; for C13
the projections of everything the real parser accepted are sent back to TLC (CodecJudge.tla), which
evaluates `Conformant` on them.
"""
from __future__ import annotations

import json
import os
import re
import shutil
import xml.etree.ElementTree as ET
from concurrent.futures import ThreadPoolExecutor
from typing import Any, Dict, List, Optional, Tuple

from .. import tlc
from ..common import Verdict, rng, use_repo

use_repo()

from indi.message import IndiMessage  # noqa: E402
from indi.message.base import IndiMessagePart  # noqa: E402
import indi.message.def_parts  # noqa: E402,F401
import indi.message.one_parts  # noqa: E402,F401

NOVAL = {"c": "none", "s": ""}
KINDS = ["getProperties", "enableBLOB", "oneLight", "delProperty", "message", "pingRequest", "pingReply",
         "defTextVector", "defNumberVector", "defSwitchVector", "defLightVector", "defBLOBVector",
         "setTextVector", "setNumberVector", "setSwitchVector", "setLightVector", "setBLOBVector",
         "newTextVector", "newNumberVector", "newSwitchVector", "newBLOBVector"]
PROTOCOL_WORDS = {"Idle", "Ok", "Busy", "Alert", "ro", "wo", "rw", "OneOfMany", "AtMostOne", "AnyOfMany",
                  "On", "Off", "Never", "Also", "Only"}
NUMBAD = ["١٢", "1e5", "--1", "12:3", "abc", "1:20:30:40", "0x10", "1,5", "12:", ":30", "1..2", "NaN"]


# ------------------------------------------------------------------ concretisation / abstraction
def _n(s: str) -> int:
    return sum(ord(ch) * (i + 1) for i, ch in enumerate(s)) % 47


def concretise(v: Dict[str, str], k: int) -> Optional[str]:
    """Abstract value -> one of several real strings of its class (k selects the sample)."""
    c, s = v["c"], v["s"]
    if c == "none":
        return None
    if c == "word":
        return s
    tag = f"{s}{k}"
    if c == "plain":
        return ["{0}", "v_{0}.x", "{0}-7/z", "A{0}", "{0}:{0}", "x{0}y", "{0}_", "Z.{0}"][k % 8].format(tag)
    if c == "markup":
        return ["<{0}>&amp;", "a<b>&c;{0}", "]]>{0}<!--", "&{0};<", "{0}>>", "<?{0}?>", "</{0}>", "&#38;{0}"][k % 8].format(tag)
    if c == "squote":
        return ["it's {0}", "'{0}'", "{0}'", "''{0}"][k % 4].format(tag)
    if c == "dquote":
        return ['say "{0}"', '"{0}"', '{0}"', '""{0}\'"'][k % 4].format(tag)
    if c == "bmp":
        return ["zażółć {0} ☃", "é{0}ü", "中文{0}", "{0}€ x"][k % 4].format(tag)
    if c == "astral":
        return ["\U0001d518\U0001d52b\U0001d526 {0} \U0001f315", "{0}\U0001f52d", "\U00010348{0}", "x\U0001f680{0}y"][k % 4].format(tag)
    if c == "innerws":
        return ["{0} a  b\tc", "a {0}", "{0}\t\tz", "p  {0}   q"][k % 4].format(tag)
    if c == "newline":
        return ["{0} l1\nl2", "a\n\n{0}", "{0}\n x", "x\n{0}\ny"][k % 4].format(tag)
    if c == "padded":
        return ["  {0} pad \n", "\t{0}", "{0}  ", "\n {0} \t"][k % 4].format(tag)
    if c == "trimmed":
        return concretise({"c": "padded", "s": s}, k).strip()
    if c == "empty":
        return ""
    if c == "blank":
        return ["  ", " \n ", "\t", "\n"][k % 4]
    if c == "numint":
        return [str(100 + _n(s) + k), "-%d" % (_n(s) + 1 + k), "0%d" % (_n(s) + k)][k % 3]
    if c == "numdec":
        return ["%d.25" % (_n(s) + k), "-0.%d" % (_n(s) + 1 + k), "%d." % (_n(s) + k), "-.%d" % (5 + _n(s) + k)][k % 4]
    if c == "numsexa":
        return ["%d:30:15.5" % (_n(s) + k), "-%d:05" % (_n(s) + k), "%d:59:59" % (_n(s) + k), "%d:07.25" % (_n(s) + k),
                "%d;30;15" % (_n(s) + k), "%d 30" % (_n(s) + k)][k % 6]
    if c == "longa":
        return "x" * 1500 + "A" + tag
    if c == "longb":
        return "x" * 1500 + "B" + tag
    if c == "numzero":
        return [0, 0.0, "0", False][k % 3]       # a library user passes numbers, not text: 0 must still be serialised
    if c == "numbad":
        return NUMBAD[(int(s) - 1) % len(NUMBAD)]
    if c == "arbitrary":
        return ["Foo bar", "xyz", "0", "ok!"][k % 4]
    raise ValueError(f"no concretisation for class {c}")


_NUM_INT = re.compile(r"^[-+]?[0-9]+$")
_NUM_DEC = re.compile(r"^[-+]?([0-9]+\.[0-9]*|\.[0-9]+)$")
_NUM_SEXA = re.compile(r"^[-+]?[0-9]+[:; ][0-9]{2}(\.[0-9]+)?([:; ][0-9]{2}(\.[0-9]+)?)?$")


def abstract_unknown(text: str) -> Dict[str, str]:
    """Dumb, independent abstraction for strings the harness did not produce itself (DESIGN 5.4)."""
    if text in PROTOCOL_WORDS:
        return {"c": "word", "s": text}
    if _NUM_INT.match(text):
        return {"c": "numint", "s": "u"}
    if _NUM_DEC.match(text):
        return {"c": "numdec", "s": "u"}
    if _NUM_SEXA.match(text):
        return {"c": "numsexa", "s": "u"}
    if text.strip() == "":
        return {"c": "empty", "s": "u"}
    return {"c": "other", "s": "u"}


class Abstraction:
    def __init__(self, k: int):
        self.k = k
        self.rev: Dict[str, Dict[str, str]] = {}

    def conc(self, v) -> Optional[str]:
        s = concretise(v, self.k)
        if s is not None:
            key = str(s)
            prev = self.rev.get(key)
            if prev is None:
                self.rev[key] = {"c": v["c"], "s": v["s"]}
            if v["c"] == "padded":
                self.rev.setdefault(s.strip(), {"c": "trimmed", "s": v["s"]})
        return s

    def abs(self, s: Optional[Any]) -> Dict[str, str]:
        if s is None:
            return dict(NOVAL)
        s = str(s)
        if s == "":
            return dict(NOVAL)          # empty text = absent text (the statement's normalisation)
        return dict(self.rev.get(s) or abstract_unknown(s))


def _attrs(a) -> Dict[str, Any]:
    return a if isinstance(a, dict) else {}


# ------------------------------------------------------------------ building real objects, projecting them
_MSG_CLASSES = {}
_PART_CLASSES = {}


def _walk(cls):
    for sub in cls.__subclasses__():
        yield sub
        yield from _walk(sub)


def _classes():
    """tag -> class, found by walking Python's subclass tree (no library registry involved);
    a message class is one the library's own parser dispatches to (has a constructor and a tag)."""
    if not _MSG_CLASSES:
        for c in _walk(IndiMessage):
            if not c.__subclasses__() or c.tag_name() in KINDS:
                _MSG_CLASSES.setdefault(c.tag_name(), c)
        for c in _walk(IndiMessagePart):
            _PART_CLASSES.setdefault(c.tag_name(), c)
    return _MSG_CLASSES, _PART_CLASSES


def build(m: dict, ab: Abstraction):
    """Abstract message -> real object through the public constructors."""
    mc, pc = _classes()
    children = []
    for p in m["children"]:
        kw = {a: ab.conc(v) for a, v in _attrs(p["attrs"]).items()}
        kw["value"] = ab.conc(p["text"])
        children.append(pc[p["tag"]](**kw))
    kw = {a: ab.conc(v) for a, v in _attrs(m["attrs"]).items()}
    if m["text"]["c"] != "none":
        kw["value"] = ab.conc(m["text"])
    cls = mc[m["kind"]]
    if hasattr(cls, "children_class") or hasattr(cls, "child_class"):
        kw["children"] = tuple(children)
    return cls(**kw)


def project(obj, ab: Abstraction) -> dict:
    """Independent structural view of a real message: class tag, every public field, children in order."""
    def fields(o):
        return {k: ab.abs(v) for k, v in vars(o).items() if k not in ("children", "value") and v is not None}
    return {"kind": type(obj).tag_name(),
            "attrs": fields(obj),
            "text": ab.abs(getattr(obj, "value", None)),
            "children": [{"tag": type(ch).tag_name(), "attrs": fields(ch), "text": ab.abs(ch.value)}
                         for ch in (getattr(obj, "children", None) or [])]}


def canon(m: dict) -> dict:
    return {"kind": m["kind"], "attrs": {k: dict(v) for k, v in _attrs(m["attrs"]).items()}, "text": dict(m["text"]),
            "children": [{"tag": p["tag"], "attrs": {k: dict(v) for k, v in _attrs(p["attrs"]).items()}, "text": dict(p["text"])}
                         for p in m["children"]]}


# ------------------------------------------------------------------ independent XML writer (foreign spellings)
def _esc_attr(s: str, quote: str, refs: bool) -> str:
    out = []
    for ch in s:
        if ch == "&":
            out.append("&amp;")
        elif ch == "<":
            out.append("&lt;")
        elif ch == ">":
            out.append("&gt;")
        elif ch == quote:
            out.append("&quot;" if quote == '"' else "&apos;")
        elif ch in "\n\t\r":
            out.append("&#%d;" % ord(ch))
        elif refs and ord(ch) > 126:
            out.append("&#x%X;" % ord(ch))
        else:
            out.append(ch)
    return "".join(out)


def _esc_text(s: str, refs: bool) -> str:
    out = []
    for ch in s:
        if ch == "&":
            out.append("&amp;")
        elif ch == "<":
            out.append("&lt;")
        elif ch == ">":
            out.append("&gt;")
        elif refs and ord(ch) > 126:
            out.append("&#%d;" % ord(ch))
        else:
            out.append(ch)
    return "".join(out)


def write_xml(m: dict, ab: Abstraction, sp: int) -> str:
    """Abstract infoset -> XML text in spelling `sp` (bit flags: declaration, indentation, single quotes,
    reversed attribute order, explicit end tags for empty elements, character references)."""
    decl, indent, squote, rev, explicit, refs = [(sp >> i) & 1 for i in range(6)]
    q = "'" if squote else '"'

    def open_tag(tag, attrs):
        items = [(a, ab.conc(v)) for a, v in _attrs(attrs).items()]
        items = [(a, str(s)) for a, s in items if s is not None]
        if rev:
            items.reverse()
        return "<" + tag + "".join(f" {a}={q}{_esc_attr(s, q, refs)}{q}" for a, s in items)

    nl = "\n" if indent else ""
    pad = "    " if indent else ""
    body = []
    for p in m["children"]:
        t = ab.conc(p["text"])
        t = None if t is None else str(t)
        o = open_tag(p["tag"], p["attrs"])
        if t is None or t == "":
            body.append(pad + (o + f"></{p['tag']}>" if explicit else o + " />"))
        else:
            body.append(pad + o + ">" + _esc_text(t, refs) + f"</{p['tag']}>")
    t = ab.conc(m["text"])
    t = None if t is None else str(t)
    o = open_tag(m["kind"], m["attrs"])
    if not body and (t is None or t == ""):
        xml = o + (f"></{m['kind']}>" if explicit else "/>")
    else:
        xml = o + ">" + (_esc_text(t, refs) if t else "") + nl + nl.join(body) + (nl if body else "") + f"</{m['kind']}>"
    if decl:
        xml = '<?xml version="1.0" encoding="UTF-8"?>' + nl + xml
    return xml


# ------------------------------------------------------------------ case generation by TLC
def generate_cases(tier: str, v: Verdict) -> Dict[str, List[dict]]:
    maxch, variants = (2, 2) if tier == "quick" else (3, 3)
    wd = tlc.scratch_dir("codec-")
    try:
        def one(kind: str):
            out = os.path.join(wd, kind)
            os.makedirs(out, exist_ok=True)
            cfg = os.path.join(out, "cases.cfg")
            base = open(os.path.join(tlc.SPEC_DIR, "CodecCases_quick.cfg")).read()
            base = re.sub(r"Kinds = \{[^}]*\}", 'Kinds = {"%s"}' % kind, base)
            base = re.sub(r"MaxCh = \d+", f"MaxCh = {maxch}", base)
            base = re.sub(r"Variants = \d+", f"Variants = {variants}", base)
            open(cfg, "w").write(base)
            res = tlc.run_tlc("CodecCases", cfg, workers=2, env={"OUT_DIR": out}, workdir=out, timeout=3000, heap="3g")
            tlc.require_ok(res, f"CodecCases[{kind}]")
            return kind, res, {n: json.load(open(os.path.join(out, n + ".json"))) for n in ("c03", "c13", "c20")}
        cases: Dict[str, List[dict]] = {"c03": [], "c13": [], "c20": []}
        with ThreadPoolExecutor(max_workers=8) as ex:
            for kind, res, data in ex.map(one, KINDS):
                v.add_tlc(res, f"CodecCases[{kind}] MaxCh={maxch} Variants={variants}")
                if res.violated:
                    v.violation(f"TLC: theorem {res.violated} fails on the codec model for kind {kind}",
                                {"kind": "tlc", "module": "CodecCases", "msgkind": kind, "tail": res.stdout[-3000:]})
                for n in cases:
                    cases[n].extend(data[n])
        return cases
    finally:
        shutil.rmtree(wd, ignore_errors=True)


def _short(x, n=400):
    s = json.dumps(x, ensure_ascii=True, default=str)
    return s if len(s) <= n else s[:n] + "..."


# ------------------------------------------------------------------ C03
def run_c03(v: Verdict, tier: str, cases: List[dict]) -> None:
    samples = 2 if tier == "quick" else 8
    spellings = [0b000001, 0b000110, 0b011010, 0b101101] if tier == "quick" else list(range(0, 64, 3))
    for ci, case in enumerate(cases):
        m, expect = case["m"], canon(case["expect"])
        classes = {val["c"] for val in list(_attrs(m["attrs"]).values()) + [p["text"] for p in m["children"]]}
        byte_exact = not (classes & {"padded", "blank", "empty"})
        for k in range(samples):
            ab = Abstraction(k + ci % 3)
            v.evaluations += 1
            try:
                obj = build(m, ab)
                wire = obj.to_string()
                back = IndiMessage.from_string(wire)
                got = project(back, ab)
                wire2 = back.to_string()
                wire3 = IndiMessage.from_string(wire2).to_string()
            except Exception as e:
                v.violation(f"round trip raised {type(e).__name__}: {e} for {_short(m)}",
                            {"kind": "c03", "case": case, "sample": ab.k})
                break
            if got != expect:
                v.violation(f"parse(serialise(m)) differs from Norm(m): got {_short(got)} expected {_short(expect)}",
                            {"kind": "c03", "case": case, "sample": ab.k, "wire": wire.decode("utf-8", "replace")})
                break
            if (byte_exact and wire2 != wire) or wire3 != wire2:
                v.violation(f"re-serialisation is not byte-identical: {wire!r} vs {wire2!r} vs {wire3!r}",
                            {"kind": "c03", "case": case, "sample": ab.k})
                break
            if k == 0:
                if m["children"] or len(_attrs(m["attrs"])) > 2:
                    v.nontrivial(("c03", ci))
                # foreign spellings of the same infoset must parse to the same normal form
                for sp in spellings:
                    v.evaluations += 1
                    try:
                        text = write_xml(m, ab, sp)
                        got2 = project(IndiMessage.from_string(text), ab)
                    except Exception as e:
                        v.violation(f"foreign spelling {sp:06b} raised {type(e).__name__}: {e}",
                                    {"kind": "c03-spelling", "case": case, "sample": ab.k, "spelling": sp})
                        break
                    if got2 != expect:
                        v.violation(f"foreign spelling {sp:06b} parses to {_short(got2)} expected {_short(expect)}",
                                    {"kind": "c03-spelling", "case": case, "sample": ab.k, "spelling": sp, "xml": text})
                        break
        if ci < 2:
            ab = Abstraction(0)
            v.sample({"abstract": m, "wire": build(m, ab).to_string().decode("utf-8", "replace")})
        v.count_action("c03:" + m["kind"])


# ------------------------------------------------------------------ C20
def mutate_into(obj, case: dict, ab: Abstraction) -> bool:
    """Turn a real copy of case.a into case.b IN PLACE (attribute assignment / child list edits), so that
    equality is also exercised on objects with a history.  Returns False if the perturbation has no in-place form."""
    name, _, arg = case["p"].partition(":")
    b = case["b"]
    mc, pc = _classes()

    def part(i):
        p = b["children"][i]
        kw = {a: ab.conc(x) for a, x in _attrs(p["attrs"]).items()}
        kw["value"] = ab.conc(p["text"])
        return pc[p["tag"]](**kw)
    if name in ("attr-changed", "attr-added"):
        setattr(obj, arg, ab.conc(b["attrs"][arg]))
    elif name == "attr-dropped":
        setattr(obj, arg, None)
    elif name == "text-changed":
        obj.value = ab.conc(b["text"])
    elif name == "child-name-changed":
        obj.children[int(arg) - 1].name = ab.conc(b["children"][int(arg) - 1]["attrs"]["name"])
    elif name == "child-text-changed":
        obj.children[int(arg) - 1].value = ab.conc(b["children"][int(arg) - 1]["text"])
    elif name == "child-dropped":
        del obj.children[int(arg) - 1]
    elif name == "child-duplicated":
        obj.children.insert(int(arg), part(int(arg)))
    elif name in ("child-swapped", "twin-swapped"):
        i = int(arg) - 1
        obj.children[i], obj.children[i + 1] = obj.children[i + 1], obj.children[i]
    elif name == "copy":
        pass
    else:
        return False
    return True


def run_c20(v: Verdict, tier: str, cases: List[dict]) -> None:
    samples = 1 if tier == "quick" else 3
    for ci, case in enumerate(cases):
        expect_eq = case["t"] == "eq"
        for k in range(samples):
            ab = Abstraction(k)
            v.evaluations += 1
            try:
                a = build(case["a"], ab)
                b = build(case["b"], ab)
                if ci % 3 == 0:     # one side through the wire
                    b = IndiMessage.from_string(b.to_string())
                got = [a == b, b == a, not (a != b), not (b != a)]
                # the same verdicts on an object with a history: a copy of a, compared once, then edited in place into b
                a2 = build(case["a"], ab)
                if hasattr(a2, "children"):
                    a2.children = list(a2.children)
                hist = [a2 == a]
                if mutate_into(a2, case, ab):
                    hist += [a2 == b, b == a2, (a2 == a) == expect_eq, (a == a2) == expect_eq]
            except Exception as e:
                v.violation(f"equality case raised {type(e).__name__}: {e} ({case['p']})", {"kind": "c20", "case": case, "sample": k})
                break
            if got != [expect_eq] * 4:
                v.violation(f"== gives {got} but the trees are {'the same' if expect_eq else 'different'} "
                            f"(perturbation {case['p']}; a={_short(case['a'], 300)})", {"kind": "c20", "case": case, "sample": k})
                break
            if not all(hist):
                v.violation(f"== is wrong after an in-place edit ({case['p']}): [copy==a, edited==b, b==edited, edited-vs-a, a-vs-edited] = {hist}",
                            {"kind": "c20", "case": case, "sample": k})
                break
        v.nontrivial(("c20", ci))
        v.count_action("c20:" + case["p"].split(":")[0])
        if ci < 2:
            v.sample({"perturbation": case["p"], "expect_equal": expect_eq, "a": case["a"], "b": case["b"]})


# ------------------------------------------------------------------ C13
def random_xml(r, n: int) -> List[Tuple[str, Abstraction]]:
    """Seeded random elements assembled from grammar pieces and random strings."""
    mc, pc = _classes()
    tags = list(mc) + ["fooBar", "defVector", "IndiMessage"]
    ptags = list(pc) + ["oneFoo", "defIndiMessagePart"]
    attrs = ["device", "name", "state", "perm", "rule", "label", "group", "timeout", "timestamp", "message", "version",
             "format", "min", "max", "step", "size", "uid", "value", "children", "junk"]
    words = sorted(PROTOCOL_WORDS) + ["on", "OK", "idle", "indi.message.const", "None", "State", "", " ", "1", "1.5", "12:30",
                                      "-3", "abc", "١", "1e5", "x y", "__module__", "__dict__", "True"] + NUMBAD
    out = []
    for _ in range(n):
        tag = r.choice(tags)
        e = ET.Element(tag, {a: r.choice(words) for a in r.sample(attrs, r.randint(0, 8))})
        if r.random() < 0.4:
            e.text = r.choice(words)
        for _ in range(r.choice([0, 0, 1, 2, 3])):
            ch = ET.SubElement(e, r.choice(ptags), {a: r.choice(words) for a in r.sample(attrs, r.randint(0, 6))})
            if r.random() < 0.7:
                ch.text = r.choice(words)
        out.append((ET.tostring(e, encoding="unicode"), Abstraction(0)))
    return out


def run_c13(v: Verdict, tier: str, cases: List[dict]) -> None:
    r = rng("c13")
    samples = 1 if tier == "quick" else 3
    observations = []
    inputs: Dict[int, Any] = {}
    oid = 0

    def feed(text: str, ab: Abstraction, origin: Any):
        nonlocal oid
        v.evaluations += 1
        try:
            obj = IndiMessage.from_string(text)
        except Exception:
            return False          # failing to parse is always acceptable (one-directional property)
        oid += 1
        observations.append({"id": oid, "m": project(obj, ab)})
        inputs[oid] = {"xml": text, "origin": origin}
        return True

    accepted_bad = 0
    for ci, case in enumerate(cases):
        for k in range(samples):
            ab = Abstraction(k)
            sp = [0, 0b000111, 0b110000][k % 3]
            ok = feed(write_xml(case["x"], ab, sp), ab, {"perturbation": case["p"], "x": case["x"]})
            if ok and not case["specAccepts"]:
                accepted_bad += 1
        v.nontrivial(("c13", ci))
        v.count_action("c13:" + case["p"].split(":")[0])
        if ci < 2:
            v.sample({"perturbation": case["p"], "xml": write_xml(case["x"], Abstraction(0), 0), "spec_accepts": case["specAccepts"]})
    nrand = 20000 if tier == "quick" else 300000
    for text, ab in random_xml(r, nrand):
        feed(text, ab, "random")
    v.notes["c13"] = {"inputs": v.evaluations, "accepted_by_real_parser": len(observations),
                      "accepted_although_model_rejects": accepted_bad}
    # judge the accepted ones with the specification's Conformant
    wd = tlc.scratch_dir("judge-")
    try:
        shards = [observations[i::8] for i in range(8)]
        shards = [s for s in shards if s]

        def judge(i_s):
            i, s = i_s
            sub = os.path.join(wd, str(i))
            os.makedirs(sub)
            path = os.path.join(sub, "obs.json")
            json.dump(s, open(path, "w"), ensure_ascii=True)
            res = tlc.run_tlc("CodecJudge", "CodecJudge.cfg", workers=1, env={"OBS_FILE": path}, workdir=sub, timeout=3000)
            tlc.require_ok(res, "CodecJudge")
            mj = re.search(r'<<"JUDGED", (\d+)>>', res.stdout)
            if not mj or int(mj.group(1)) != len(s):
                raise tlc.MachineryError("CodecJudge did not judge the whole batch: " + res.stdout[-2000:])
            return [int(x) for x in re.findall(r'<<"NONCONF", (\d+)>>', res.stdout)]
        bad: List[int] = []
        with ThreadPoolExecutor(max_workers=8) as ex:
            for ids in ex.map(judge, enumerate(shards)):
                bad.extend(ids)
    finally:
        shutil.rmtree(wd, ignore_errors=True)
    v.traces_validated = len(observations) - len(bad)
    proj = {o["id"]: o["m"] for o in observations}
    for i in sorted(bad)[:40]:
        v.violation(f"parser accepted a non-conformant element: {inputs[i]['xml'][:300]!r} -> {_short(proj[i], 500)}",
                    {"kind": "c13", "input": inputs[i], "projection": proj[i]})


def run(prop: str, tier: str) -> int:
    v = Verdict(prop, tier)
    v.assumptions = ["character-level escaping is ElementTree's and is exercised, not modelled (DESIGN 9)",
                     "value classes are concretised by a fixed pool of real strings per class; the abstraction of "
                     "strings the harness did not produce is a dumb table (set membership, three ASCII regexes)"]
    cases = generate_cases(tier, v)
    v.phase("tlc_cases")
    v.notes["cases"] = {k: len(x) for k, x in cases.items()}
    v.exhaustive = False
    if prop == "C03":
        v.rule = ("case = one abstract message of the bounded grammar (kind x optional-attribute subset x 0..MaxCh children x "
                  "value class x variant) generated by TLC, executed with several concrete samples and foreign spellings; "
                  "non-trivial = has children or more than two attributes; distinct = distinct abstract cases")
        run_c03(v, tier, cases["c03"])
        v.traces_validated = len(cases["c03"])
    elif prop == "C20":
        v.rule = ("case = pair (message, single-point perturbation or rebuilt copy) generated by TLC with the structural verdict; "
                  "distinct = distinct pairs; all are non-trivial")
        run_c20(v, tier, cases["c20"])
        v.traces_validated = len(cases["c20"])
    elif prop == "C13":
        v.rule = ("case = XML infoset with one systematic perturbation of a constrained field (generated by TLC) or seeded random "
                  "XML; every element the real parser accepts is judged by Conformant in TLC; distinct = distinct perturbation cases")
        run_c13(v, tier, cases["c13"])
    v.phase("implementation_tests")
    return v.finish()


def replay(prop: str, path: str) -> int:
    rp = json.load(open(path))["replay"]
    v = Verdict(prop, "quick")
    if rp["kind"].startswith("c03"):
        run_c03(v, "quick", [rp["case"]])
    elif rp["kind"] == "c20":
        run_c20(v, "quick", [rp["case"]])
    elif rp["kind"] == "c13":
        try:
            obj = IndiMessage.from_string(rp["input"]["xml"])
            print("real parser accepts:", _short(project(obj, Abstraction(0)), 800))
            print(f"VIOLATION property={prop} replay={path}")
            return 1
        except Exception as e:
            print("real parser rejects:", type(e).__name__, e)
            return 0
    return 1 if v.violations else 0
