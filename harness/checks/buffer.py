"""C02 / C11: BufferAlgo.tla (character-level model of indi/transport/buffer.py) and Framing.tla.

 (a) mini alphabet, exact: TLC model-checks every concatenation of catalogue segments x cut sets x
     thresholds; the same space (plus longer seeded random streams) is run through the REAL Buffer, with
     real message classes K / C registered, and every process() call is validated by TraceBuffer.tla:
     number and content of delivered messages and the retained length must equal the model's.
 (b) real-world text: real INDI messages in foreign spellings, Latin-1 junk, truncations, all
     fragmentations; recorded per call and validated by TraceFraming.tla against the stream's layout.
"""
from __future__ import annotations

import itertools
import json
import os
from typing import Any, Dict, List, Optional, Sequence, Tuple

from .. import tlc
from .. import watchdog
from ..watchdog import Stalled, bounded
from ..common import Verdict, rng, use_repo

use_repo()

from indi.message import IndiMessage  # noqa: E402
from indi.message.base import IndiMessagePart  # noqa: E402
from indi.transport import Buffer  # noqa: E402


# ------------------------------------------------------------------ real classes for the mini alphabet
def _register_mini():
    for c in IndiMessage.all_message_classes():
        if c.tag_name() == "k":
            return

    @IndiMessage.register_message
    class K(IndiMessage):
        from_device = True

        def __init__(self, value=None, children=None, **junk):
            super().__init__()
            self.value = value
            self.children = children or ()

    class C(IndiMessagePart):
        def __init__(self, value=None, **junk):
            super().__init__(name="c", value=value)
    globals()["K"], globals()["C"] = K, C


CATALOGUE = ["<k/>", "<k>x</k>", "x", "<k/", "<u/>", "<k/>n", "<k>", "<k><c/></k>", "<kx/>", ">", "n<k>x></k>", "<",
             "</k>", "<k>x</", "<k><c>x</c><c/></k>", "<u>x</u>", "<kn/>", "/", "<k><u/></k>", "n"]


def to_real(s: str) -> str:
    return s.replace("n", "\n")


def to_mini(s: Optional[str]) -> List[str]:
    return list((s or "").replace("\n", "n"))


class Watchdog(Exception):
    pass


CAT_CLASS = {"<k/>": "msg", "<k>x</k>": "msg", "<k/>n": "msg", "<k><c/></k>": "msg", "n<k>x></k>": "msg",
             "<k><c>x</c><c/></k>": "msg", "<kn/>": "msg"}


def run_buffer(stream: str, cuts: Sequence[int], thr: int, real_map=to_real, pieces: Optional[List[str]] = None) -> dict:
    """Feed the real Buffer piece by piece; one trace event per append+process call."""
    buf = Buffer()
    buf.max_buffer_size_before_frontal_cleanup = None if thr < 0 else thr
    ev = []
    bounds = sorted(set(cuts)) + [len(stream)]
    fed = 0
    for b in bounds:
        if b <= fed:
            continue
        piece = stream[fed:b]
        fed = b
        got: List[Any] = []
        budget = 4 * len(stream) + 16

        def cb(m):
            got.append(m)
            if len(got) > budget:
                raise Watchdog("more callbacks than characters: process() does not terminate")
        raised = ""
        try:
            # every other call the piece arrives as two appends before the one process() call (a reader that drains what is
            # available): "the processing call that follows arrival of its last character" is then this call all the same
            if len(ev) % 2 == 1 and len(piece) >= 2:
                k = 1 + (fed % (len(piece) - 1))
                buf.append(real_map(piece[:k]))
                buf.append(real_map(piece[k:]))
            else:
                buf.append(real_map(piece))
            with bounded(30, f"Buffer.process on {len(stream)} characters"):
                buf.process(cb)
        except (Watchdog, Stalled) as e:
            raised = "non-termination: " + str(e)
            if watchdog.fired_total >= 3:
                raise Stalled(str(e) + " (third occurrence: the check stops here)")
        except Exception as e:
            raised = f"{type(e).__name__}: {e}"
        dl = []
        for m in got[:50]:
            if m is None:
                dl.append({"value": ["N", "O", "N", "E"], "kids": []})
                continue
            dl.append({"value": to_mini(getattr(m, "value", None)),
                       "kids": [to_mini(ch.value) for ch in (getattr(m, "children", None) or ())]})
        ev.append({"fed": fed, "dl": dl, "dlen": len(buf.data), "raised": raised})
        if raised:
            break
    return {"stream": list(stream), "thr": thr, "ev": ev, "pieces": pieces or [stream]}


def mini_space(cat: List[str], max_segs: int, max_cuts: int, thrs: Sequence[int]):
    for n in range(1, max_segs + 1):
        for sel in itertools.product(range(len(cat)), repeat=n):
            s = "".join(cat[i] for i in sel)
            pos = range(1, len(s))
            for k in range(0, max_cuts + 1):
                for cuts in itertools.combinations(pos, k):
                    for t in thrs:
                        yield s, cuts, t, [cat[i] for i in sel]


def model_check(v: Verdict, tier: str) -> None:
    cfgs = ["MC_BufferAlgo_quick.cfg", "MC_BufferAlgo_quick3.cfg"] if tier == "quick" else \
           ["MC_BufferAlgo_quick.cfg", "MC_BufferAlgo_thorough.cfg", "MC_BufferAlgo_thorough4.cfg"]
    for cfg in cfgs:
        res = tlc.require_ok(tlc.run_tlc("MC_BufferAlgo", cfg, timeout=7200, heap="12g"), cfg)
        v.add_tlc(res, cfg)
        if res.violated:
            v.violation(f"TLC: {res.violated} violated in the buffer model ({cfg})", {"kind": "tlc", "cfg": cfg, "tail": res.stdout[-3000:]})
    a = tlc.require_ok(tlc.run_tlc("MC_BufferAlgo", "MC_BufferAlgo_asis.cfg", timeout=2400), "buffer as-is self-test")
    v.notes["asis_selftest"] = {"AsIsLoopExit=TRUE violates": a.violated}
    if a.violated not in ("OnlyMessages", "Bounded"):
        raise tlc.MachineryError(f"self-test: the as-is loop should violate OnlyMessages/Bounded, got {a.violated}")
    hit = tlc.probe_reachable("MC_BufferAlgo", "MC_BufferAlgo_quick.cfg",
                              ["ProbeInv_FrontalCleanup", "ProbeInv_DirtyDelivered", "ProbeInv_SplitMessage", "ProbeInv_InvalidSkipped"])
    v.notes["reachability_probes_hit"] = hit
    if not all(hit.values()):
        raise tlc.MachineryError(f"reachability probes not all hit: {hit}")


def mini_traces(v: Verdict, tier: str) -> List[dict]:
    _register_mini()
    r = rng("buffer-mini")
    traces = []
    if tier == "quick":
        space = itertools.chain(mini_space(CATALOGUE[:12], 2, 2, [-1, 8]), mini_space(CATALOGUE, 2, 1, [4, 12]))
    else:
        space = itertools.chain(mini_space(CATALOGUE[:12], 2, 2, [-1, 4, 8, 12]), mini_space(CATALOGUE, 2, 2, [-1, 8]),
                                mini_space(CATALOGUE[:10], 3, 2, [-1, 8]))
    for s, cuts, t, pieces in space:
        traces.append(run_buffer(s, cuts, t, pieces=pieces))
    v.notes["mini_exhaustive_cases"] = len(traces)
    nrand = 4000 if tier == "quick" else 60000
    for _ in range(nrand):
        n = r.randint(3, 9)
        pcs = [r.choice(CATALOGUE) for _ in range(n)]
        s = "".join(pcs)
        k = r.choice([0, 1, 2, 3, 5, len(s) - 1])
        cuts = sorted(r.sample(range(1, len(s)), min(k, len(s) - 1))) if len(s) > 1 else []
        traces.append(run_buffer(s, cuts, r.choice([-1, 4, 8, 12, 16, 24]), pieces=pcs))
    return traces


def validate(v: Verdict, prop: str, module: str, cfg: str, traces: List[dict], label: str) -> None:
    slim = [{k: t[k] for k in ("stream", "thr", "ev")} for t in traces]
    rej, gen, dist = tlc.validate_traces(module, cfg, slim)
    v.notes.setdefault("trace_validation", {})[label] = {"traces": len(traces), "rejected_by_model": len(rej), "tlc_states": dist}
    if not rej:
        v.traces_validated += len(traces)
        return
    # The character-level model cannot explain these calls.  That is a violation only if the property-level contract
    # (Framing.tla) rejects the same stream too; otherwise the implementation merely changed shape (model drift).
    from . import framing
    again = []
    for rj in rej:
        t = traces[rj.index]
        pieces = [(("msg" if CAT_CLASS.get(p) else "dirty"), to_real(p)) for p in t["pieces"]]
        again.append(framing.run_stream(pieces, [e["fed"] for e in t["ev"]], t["thr"], mini=True))
    crej, _, _ = tlc.validate_traces("TraceFraming", "TraceFraming.cfg", [{k: t[k] for k in ("thr", "clean", "msgs", "ev")} for t in again])
    v.notes["trace_validation"][label]["rejected_by_contract"] = len(crej)
    v.traces_validated += len(traces) - len(crej)
    if len(crej) < len(rej):
        print(f"NOTE: {len(rej) - len(crej)} mini-alphabet calls are no longer explained character by character by BufferAlgo.tla although "
              f"the framing contract holds on them (implementation changed shape); not a violation")
    for cj in crej[:25]:
        rj = rej[cj.index]
        t = traces[rj.index]
        ev = t["ev"][rj.matched] if rj.matched < len(t["ev"]) else None
        text = "".join(t["stream"])
        v.violation(f"[{label}] real Buffer call violates the framing contract and is not a behaviour of BufferAlgo.tla: stream {text[:200]!r} "
                    f"thr={t.get('thr')} call #{rj.matched + 1} observed {json.dumps(ev)[:400]}",
                    {"kind": label, "trace": {k: t[k] for k in ("stream", "thr", "ev")}, "rejected_event_index": rj.matched})
    if len(crej) > 25:
        v.violations.extend(["(more)"] * (len(crej) - 25))


def run(prop: str, tier: str) -> int:
    v = Verdict(prop, tier)
    v.rule = ("case = one append+process() call of the real Buffer on a generated stream; non-trivial = the call delivers a message, "
              "skips junk or retains a partial element; distinct = distinct (stream, cuts, threshold, call index)")
    v.assumptions = ["mini alphabet: real classes K (message) and C (part) are registered so that the real Buffer runs on the model's strings",
                     "expat is the XML recogniser; the TLA+ recogniser is shown to agree with it on every executed string"]
    model_check(v, tier)
    v.phase("model_check")
    traces = mini_traces(v, tier)
    for t in traces:
        for i, ev in enumerate(t["ev"]):
            v.evaluations += 1
            v.count_action("call")
            if ev["dl"] or ev["dlen"]:
                v.nontrivial(("mini", "".join(t["stream"]), t["thr"], ev["fed"], i))
    v.sample({"stream": "".join(traces[len(traces) // 2]["stream"]), "thr": traces[len(traces) // 2]["thr"], "calls": traces[len(traces) // 2]["ev"]})
    v.phase("run_real_buffer_mini")
    validate(v, prop, "TraceBuffer", "TraceBuffer.cfg", traces, "mini")
    v.phase("trace_validation_mini")
    from . import framing
    framing.run_into(v, prop, tier)
    return v.finish()


def replay(prop: str, path: str) -> int:
    rp = json.load(open(path))["replay"]
    t = rp["trace"]
    if rp["kind"] == "mini":
        _register_mini()
        s = "".join(t["stream"])
        cuts = [e["fed"] for e in t["ev"]]
        t2 = run_buffer(s, cuts, t["thr"])
        print("re-executed:", json.dumps(t2["ev"])[:1500])
        rej, _, _ = tlc.validate_traces("TraceBuffer", "TraceBuffer.cfg", [t2], shards=1)
        if rej:
            print(f"VIOLATION property={prop} replay={path}")
            return 1
        print("accepted by the specification")
        return 0
    from . import framing
    return framing.replay(prop, rp, path)
