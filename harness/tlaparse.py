"""Parser for TLA+ values as TLC prints them (dump files, simulation files, PrintT output).

Supported: integers, strings, TRUE/FALSE, model values / identifiers, sequences <<..>>, sets {..},
records [a |-> v, ...], functions (k :> v @@ k :> v), and `/\\ var = value` state conjunctions.
Sequences become tuples, sets frozensets, records and functions dicts.
"""
from __future__ import annotations

import re
from typing import Any, Dict, Iterator, List, Tuple

_TOK = re.compile(r"""
    (?P<ws>\s+)
  | (?P<str>"(?:[^"\\]|\\.)*")
  | (?P<num>-?\d+)
  | (?P<op><<|>>|\|->|:>|@@|/\\|\[|\]|\{|\}|\(|\)|,|=)
  | (?P<id>[A-Za-z_][A-Za-z0-9_!]*)
""", re.X)


class Ident(str):
    """A model value or other bare identifier."""


def _tokens(s: str) -> List[Tuple[str, str]]:
    out = []
    pos = 0
    n = len(s)
    while pos < n:
        m = _TOK.match(s, pos)
        if not m:
            raise ValueError(f"cannot tokenise TLA value at {pos}: {s[pos:pos+40]!r}")
        pos = m.end()
        k = m.lastgroup
        if k == "ws":
            continue
        out.append((k, m.group(k)))
    return out


def _unescape(tok: str) -> str:
    body = tok[1:-1]
    return re.sub(r"\\(.)", lambda m: {"n": "\n", "t": "\t", "r": "\r", "f": "\f"}.get(m.group(1), m.group(1)), body)


class _P:
    def __init__(self, toks):
        self.t = toks
        self.i = 0

    def peek(self):
        return self.t[self.i] if self.i < len(self.t) else (None, None)

    def eat(self, val=None):
        k, v = self.peek()
        if k is None or (val is not None and v != val):
            raise ValueError(f"expected {val!r}, got {v!r} at token {self.i}")
        self.i += 1
        return k, v

    def value(self) -> Any:
        k, v = self.peek()
        if k == "str":
            self.i += 1
            return _unescape(v)
        if k == "num":
            self.i += 1
            return int(v)
        if k == "id":
            self.i += 1
            if v == "TRUE":
                return True
            if v == "FALSE":
                return False
            return Ident(v)
        if v == "<<":
            self.i += 1
            items = []
            while self.peek()[1] != ">>":
                items.append(self.value())
                if self.peek()[1] == ",":
                    self.i += 1
            self.eat(">>")
            return tuple(items)
        if v == "{":
            self.i += 1
            items = []
            while self.peek()[1] != "}":
                items.append(self.value())
                if self.peek()[1] == ",":
                    self.i += 1
            self.eat("}")
            return frozenset(_hashable(x) for x in items)
        if v == "[":
            self.i += 1
            rec: Dict[str, Any] = {}
            while self.peek()[1] != "]":
                _, name = self.eat()
                self.eat("|->")
                rec[name] = self.value()
                if self.peek()[1] == ",":
                    self.i += 1
            self.eat("]")
            return rec
        if v == "(":
            self.i += 1
            fn: Dict[Any, Any] = {}
            while True:
                key = self.value()
                self.eat(":>")
                fn[_hashable(key)] = self.value()
                if self.peek()[1] == "@@":
                    self.i += 1
                    continue
                break
            self.eat(")")
            return fn
        raise ValueError(f"unexpected token {v!r} at {self.i}")


def _hashable(x: Any) -> Any:
    if isinstance(x, dict):
        return tuple(sorted((k, _hashable(v)) for k, v in x.items()))
    if isinstance(x, (list, tuple)):
        return tuple(_hashable(v) for v in x)
    return x


def parse_value(s: str) -> Any:
    p = _P(_tokens(s))
    v = p.value()
    if p.i != len(p.t):
        raise ValueError(f"trailing tokens after value: {p.t[p.i:p.i+5]}")
    return v


def parse_state(s: str) -> Dict[str, Any]:
    """Parse `/\\ x = v /\\ y = w ...` (or a single `x = v`)."""
    p = _P(_tokens(s))
    st: Dict[str, Any] = {}
    while p.i < len(p.t):
        if p.peek()[1] == "/\\":
            p.i += 1
        _, name = p.eat()
        p.eat("=")
        st[name] = p.value()
    return st


_STATE_HDR = re.compile(r"^State (\d+):\s*(<.*>)?\s*$")


def iter_dump_states(path: str) -> Iterator[Dict[str, Any]]:
    """States of a `-dump file` (plain format): blocks 'State N:' followed by conjunctions."""
    buf: List[str] = []
    with open(path) as f:
        for line in f:
            if line.startswith("State "):
                if buf:
                    yield parse_state("".join(buf))
                buf = []
            elif line.strip():
                buf.append(line)
    if buf:
        yield parse_state("".join(buf))


_SIM_ACTION = re.compile(r"^\\\* <(\w+)(?:\((.*)\))? line \d+, col \d+ to line \d+, col \d+ of module (\w+)>")


def parse_simulation_file(path: str) -> List[Tuple[str, str, Dict[str, Any]]]:
    """A `-simulate file=...` behaviour: list of (action name, raw args, state)."""
    steps: List[Tuple[str, str, Dict[str, Any]]] = []
    action, args = "Init", ""
    buf: List[str] = []
    in_state = False
    with open(path) as f:
        for line in f:
            m = _SIM_ACTION.match(line)
            if m:
                action, args = m.group(1), m.group(2) or ""
                continue
            if line.startswith("STATE_"):
                in_state = True
                buf = []
                continue
            if in_state:
                if line.strip() == "" or line.startswith("\\*") or line.startswith("===="):
                    if buf:
                        steps.append((action, args, parse_state("".join(buf))))
                    buf = []
                    in_state = False
                    mm = _SIM_ACTION.match(line)
                    if mm:
                        action, args = mm.group(1), mm.group(2) or ""
                else:
                    buf.append(line)
    if buf:
        steps.append((action, args, parse_state("".join(buf))))
    return steps
