"""Bridge to TLC: model-checking runs, simulation runs and batch trace validation.

Everything TLC needs (metadir, trace shards, dumps) lives in a private temporary
directory that is removed afterwards; nothing under /tmp is needed between commands.
"""
from __future__ import annotations

import json
import os
import re
import shutil
import subprocess
import tempfile
import time
from concurrent.futures import ThreadPoolExecutor
from dataclasses import dataclass, field
from typing import Any, Dict, Iterable, List, Optional, Sequence, Tuple

VERIF = os.path.dirname(os.path.dirname(os.path.abspath(__file__)))
SPEC_DIR = os.path.join(VERIF, "spec")
TLA_CP = "/opt/veriftools/tla/tla2tools.jar:/opt/veriftools/tla/CommunityModules-deps.jar"
NCPU = os.cpu_count() or 4


class MachineryError(Exception):
    """TLC could not be run / parse error / unexpected output: exit code 2, never a verdict."""


@dataclass
class TLCResult:
    stdout: str
    generated: int = 0          # "states generated" = transitions explored (+ initial states)
    distinct: int = 0           # distinct states
    ok: bool = False            # finished without any error
    violated: Optional[str] = None   # name of the violated invariant/property, if any
    error: Optional[str] = None      # other error text
    wall_s: float = 0.0
    coverage: Dict[str, int] = field(default_factory=dict)   # action -> distinct states found by it
    printed: List[str] = field(default_factory=list)          # PrintT output lines


_RE_STATES = re.compile(r"(\d+) states generated, (\d+) distinct states found")
_RE_INV = re.compile(r"Error: Invariant (\S+) is violated")
_RE_ACTPROP = re.compile(r"Error: Action property (\S+) is violated")
_RE_TEMPORAL = re.compile(r"Error: Temporal properties were violated")
_RE_COV = re.compile(r"^<(\w+) line \d+, col \d+ to line \d+, col \d+ of module (\w+)>: (\d+):(\d+)", re.M)


def _java(heap: str = "4g") -> List[str]:
    return ["java", "-XX:+UseParallelGC", "-XX:ParallelGCThreads=4", f"-Xmx{heap}", "-Xss64m", "-cp", TLA_CP]


def scratch_dir(prefix: str = "verif-") -> str:
    base = os.environ.get("VERIF_SCRATCH") or tempfile.gettempdir()
    return tempfile.mkdtemp(prefix=prefix, dir=base)


def run_tlc(
    module: str,
    cfg: str,
    *,
    workers: int | str = "auto",
    deadlock_check: bool = False,
    coverage: bool = False,
    extra: Sequence[str] = (),
    env: Optional[Dict[str, str]] = None,
    timeout: int = 3600,
    heap: str = "6g",
    spec_dir: str = SPEC_DIR,
    jvm_props: Sequence[str] = (),
    workdir: Optional[str] = None,
) -> TLCResult:
    """Run TLC on spec_dir/module.tla with spec_dir/cfg (or an absolute cfg path)."""
    own = workdir is None
    wd = workdir or scratch_dir("tlc-")
    try:
        meta = os.path.join(wd, "meta-%d" % (time.time_ns() % 10**9))
        cfg_path = cfg if os.path.isabs(cfg) else os.path.join(spec_dir, cfg)
        # (TLC unpacks its standard modules into a fresh directory under java.io.tmpdir on every start and leaves it behind:
        #  keep that inside the scratch directory, which is removed)
        cmd = _java(heap) + [f"-Djava.io.tmpdir={wd}"] + list(jvm_props) + ["tlc2.TLC", "-metadir", meta, "-noGenerateSpecTE",
                                                "-workers", str(workers), "-config", cfg_path]
        if not deadlock_check:
            cmd.append("-deadlock")
        if coverage:
            cmd += ["-coverage", "1"]
        cmd += list(extra)
        cmd.append(os.path.join(spec_dir, module + ".tla"))
        e = dict(os.environ)
        if env:
            e.update(env)
        t0 = time.time()
        try:
            p = subprocess.run(cmd, cwd=spec_dir, env=e, stdout=subprocess.PIPE, stderr=subprocess.STDOUT,
                               timeout=timeout, text=True, errors="replace")
        except subprocess.TimeoutExpired as ex:
            raise MachineryError(f"TLC timed out after {timeout}s on {module}/{cfg}") from ex
        out = p.stdout
        res = TLCResult(stdout=out, wall_s=time.time() - t0)
        m = None
        for m in _RE_STATES.finditer(out):
            pass
        if m:
            res.generated, res.distinct = int(m.group(1)), int(m.group(2))
        mi = _RE_INV.search(out) or _RE_ACTPROP.search(out)
        if mi:
            res.violated = mi.group(1)
        elif _RE_TEMPORAL.search(out):
            res.violated = "<temporal>"
        elif "Error:" in out or p.returncode != 0:
            # keep the first error paragraph
            idx = out.find("Error:")
            res.error = out[idx: idx + 1500] if idx >= 0 else f"exit {p.returncode}: {out[-1500:]}"
        res.ok = res.violated is None and res.error is None
        if coverage:
            for name, mod, dist, gen in _RE_COV.findall(out):
                res.coverage[name] = res.coverage.get(name, 0) + int(gen)
        res.printed = [ln for ln in out.splitlines() if ln.startswith("<<") or ln.startswith('"')]
        return res
    finally:
        if own:
            shutil.rmtree(wd, ignore_errors=True)


def require_ok(res: TLCResult, what: str) -> TLCResult:
    if res.error:
        raise MachineryError(f"TLC error in {what}: {res.error}")
    return res


# --------------------------------------------------------------------------------------
# batch trace validation

_RE_REJECT = re.compile(r'<<"REJECT", (\d+), (\d+)>>')
_RE_DONE = re.compile(r'<<"BATCH", (\d+)>>')


@dataclass
class Rejection:
    index: int          # index into the list handed to validate_traces
    matched: int        # number of events explained (0-based length of longest explained prefix)
    trace: Any


def _run_shard(module: str, cfg: str, shard_path: str, n: int, wd: str, timeout: int,
               extra_env: Optional[Dict[str, str]], spec_dir: str) -> Tuple[List[Tuple[int, int]], int, int, str]:
    env = {"TRACE_FILE": shard_path}
    if extra_env:
        env.update(extra_env)
    res = run_tlc(module, cfg, workers=1, env=env, timeout=timeout, heap="3g", spec_dir=spec_dir, workdir=wd)
    out = res.stdout
    md = _RE_DONE.search(out)
    if not md or int(md.group(1)) != n:
        raise MachineryError(f"trace validation {module}: batch marker missing or wrong "
                             f"(expected {n}): {out[-3000:]}")
    rej = [(int(a), int(b)) for a, b in _RE_REJECT.findall(out)]
    if res.error and not rej:
        # the POSTCONDITION being false is reported as an error; anything else is machinery failure
        if "Postcondition" not in res.error and "postcondition" not in res.error.lower():
            raise MachineryError(f"trace validation {module}: {res.error}")
    return rej, res.generated, res.distinct, out


def validate_traces(
    module: str,
    cfg: str,
    traces: Sequence[Any],
    *,
    shards: int = NCPU,
    timeout: int = 3600,
    env: Optional[Dict[str, str]] = None,
    spec_dir: str = SPEC_DIR,
) -> Tuple[List[Rejection], int, int]:
    """Validate each trace against the trace spec `module` (a JSON array of traces per JVM).

    Returns (rejections, states generated, distinct states).  Each trace is whatever JSON value the
    trace module expects (usually an object with 'cfg' and 'ev' or a plain array of event records).
    """
    if not traces:
        return [], 0, 0
    wd = scratch_dir("trace-")
    try:
        k = max(1, min(shards, len(traces)))
        buckets: List[List[int]] = [[] for _ in range(k)]
        for i in range(len(traces)):
            buckets[i % k].append(i)
        jobs = []
        for b, idxs in enumerate(buckets):
            path = os.path.join(wd, f"shard{b}.json")
            with open(path, "w") as f:
                json.dump([traces[i] for i in idxs], f, separators=(",", ":"), ensure_ascii=True)
            jobs.append((path, idxs))
        rejections: List[Rejection] = []
        gen = dist = 0
        with ThreadPoolExecutor(max_workers=k) as ex:
            futs = [ex.submit(_run_shard, module, cfg, path, len(idxs), wd, timeout, env, spec_dir)
                    for path, idxs in jobs]
            for (path, idxs), fu in zip(jobs, futs):
                rej, g, d, _ = fu.result()
                gen += g
                dist += d
                for t, l in rej:
                    i = idxs[t - 1]
                    rejections.append(Rejection(index=i, matched=l - 1, trace=traces[i]))
        rejections.sort(key=lambda r: r.index)
        return rejections, gen, dist
    finally:
        shutil.rmtree(wd, ignore_errors=True)


def probe_reachable(module: str, base_cfg: str, probes: Sequence[str], *, timeout: int = 2400,
                    spec_dir: str = SPEC_DIR) -> Dict[str, bool]:
    """Anti-vacuity: each probe is an action property / invariant stating that an interesting
    situation never occurs; it must be VIOLATED.  One TLC run per probe, in parallel; base_cfg is a
    cfg file whose PROPERTY/INVARIANT lines are replaced."""
    text = open(os.path.join(spec_dir, base_cfg)).read()
    keep = [ln for ln in text.splitlines() if not ln.strip().startswith(("PROPERTY", "INVARIANT", "PROPERTIES", "INVARIANTS"))]
    wd = scratch_dir("probe-")
    try:
        def one(pr: str) -> bool:
            kind = "INVARIANT" if pr.startswith("ProbeInv_") else "PROPERTY"
            path = os.path.join(wd, pr + ".cfg")
            with open(path, "w") as f:
                f.write("\n".join(keep) + f"\n{kind} {pr}\n")
            sub = os.path.join(wd, pr)
            os.makedirs(sub, exist_ok=True)
            r = run_tlc(module, path, workers=4, timeout=timeout, spec_dir=spec_dir, workdir=sub)
            if r.error:
                raise MachineryError(f"probe {pr}: {r.error}")
            return r.violated == pr
        with ThreadPoolExecutor(max_workers=max(1, min(len(probes), 4))) as ex:
            return dict(zip(probes, ex.map(one, probes)))
    finally:
        shutil.rmtree(wd, ignore_errors=True)


def sany(module: str, spec_dir: str = SPEC_DIR) -> None:
    cmd = _java("1g") + ["tla2sany.SANY", os.path.join(spec_dir, module + ".tla")]
    p = subprocess.run(cmd, cwd=spec_dir, stdout=subprocess.PIPE, stderr=subprocess.STDOUT, text=True, timeout=1200)
    if p.returncode != 0 or "Semantic errors" in p.stdout or "*** Errors" in p.stdout or "Parse Error" in p.stdout:
        raise MachineryError(f"SANY failed on {module}:\n{p.stdout[-3000:]}")
