"""Regenerates /verif/MANIFEST.json from the table below (./check manifest)."""
import json
import os

VERIF = os.path.dirname(os.path.dirname(os.path.abspath(__file__)))

BASE_NOTE = ("Trusted base: TLC + CommunityModules, CPython/asyncio/ElementTree, the harness's fakes, projection and "
             "abstraction code; TLC results are exhaustive only inside the stated bounds, beyond them the claim rests "
             "on the seeded conformance runs.")

CODEC_TECH = "TLA+ spec (Codec.tla) + TLC case enumeration with theorem checking; one implementation test per TLC-generated case"
BUF_TECH = ("TLA+ spec (BufferAlgo.tla char-level + Framing.tla contract) + TLC exhaustive model checking; "
            "TLC trace validation of real Buffer calls (TraceBuffer.tla, TraceFraming.tla)")
SYS_TECH = ("TLA+ spec (System.tla) + TLC model checking of convergence under every channel interleaving; TLC trace validation "
            "(TraceSystem.tla) of the real composed stack pumped to quiescence")
CHECKS = {
    "C01": dict(
        text="System.tla composes driver operations, the router's per-connection BLOB policy and a client whose control and BLOB connections "
             "feed one view over four FIFO channels; TLC checks Converged at every quiescent state under every interleaving with the two "
             "connections scheduled independently (and shows that the unfiltered BLOB connection of the unrepaired client violates it). The real "
             "stack - generated drivers (1-3 devices, five kinds, three rules, inheritance depth <= 3, base classes instantiated too), real Router, "
             "real server TCP handlers, real library Clients with two connections, in-process SnoopingClients (whole-device and one-property "
             "scopes, repeated snooping) - executes random and directed histories of driver operations and client writes; a pump delivers the "
             "bytes of all links in global send order or independently, fragmented whole / 1-byte / 1024 / randomly; after every operation the "
             "device truth and every client's public view are projected and TraceSystem.tla checks FullView / ScopedView (state, label, group, "
             "exactly the enabled elements, values as the format renders them, no other properties).",
        design="6/C01", technique=SYS_TECH),
    "C08": dict(
        text="System.tla: BlobGenuine always, BlobConverged under global send order. Real stack: a driver publishes and a library client uploads "
             "BLOBs of lengths 0..4096 (every length in the thorough tier, plus megabyte sizes) crossing the 1024-byte read size and the "
             "2048-character threshold, contents cycling through all byte values, several formats, fragmented 1024 / 1-byte / randomly, to a "
             "two-connection client and to single-connection clients with policy unset / Never / Also / Only; TraceSystem.tla demands identical "
             "bytes, format and length exactly for the clients that enabled BLOBs, no payload for the others, the uploaded BLOB identical at "
             "the driver, quiescence of every pump (no stall) and delivery of the traffic that follows. Losses explainable only by the recorded "
             "deviation (message longer than the threshold on a threshold-enabled link) are reported as KNOWN-FINDING.",
        design="6/C08", technique=SYS_TECH),
    "C02": dict(
        text="BufferAlgo.tla models buffer.py character by character over a mini-XML alphabet with its own XML recogniser (one action per "
             "critical section); TLC checks every concatenation of catalogue segments x every cut set x thresholds against Framing.tla's "
             "contract (lossless, ordered, prompt for clean streams). The real Buffer, with real classes registered for the mini tags, is run "
             "on the same space and on longer random streams and every process() call must be explained by the model (count and content of "
             "deliveries, retained length). Real INDI messages in 64 foreign spellings with clean junk are cut exhaustively (1-, 2-cut), char "
             "by char, at 1024 and randomly, thresholds {16,128,2048,disabled}, and validated against the same contract by TraceFraming.tla.",
        design="6/C02", technique=BUF_TECH),
    "C11": dict(
        text="Same model and traces as C02 with the dirty part of the catalogue (truncations, unclosed and imitation elements, stray markup, "
             "complete-but-invalid elements): TLC checks termination as a variant bound (Bounded), OnlyMessages, Retained, InOrder, Recovers; the "
             "as-is loop (AsIsLoopExit) is shown to violate them. Real-world: Latin-1 junk from protocol fragments, hostile well-formed elements "
             "and real messages truncated at every position, all fragmentations; per call: no raise, no non-termination (callback watchdog), "
             "only genuine messages, retention bound, order, recovery - validated by TraceFraming.tla.",
        design="6/C11", technique=BUF_TECH),
    "C03": dict(
        text="Codec.tla transcribes the serialiser/parser at infoset level (dispatch on tag, required attributes, vocabularies, child "
             "kinds, number syntax, dropped unknown attributes, trimmed text, empty = absent). TLC enumerates every valid message of "
             "the bounded grammar (21 kinds x optional-attribute subsets x 0..MaxCh children x 11 value classes), checks RoundTrip and "
             "Idempotent on each and exports it with its normal form; each case is executed on the real classes with several concrete "
             "strings per class and in foreign XML spellings, and the independent structural projection must equal TLC's normal form and "
             "re-serialisation must be byte-identical.",
        design="6/C03", technique=CODEC_TECH),
    "C06": dict(
        text="End to end (client element assignment + submit -> serializer -> server TCP handler -> framing -> router -> driver, two clients, "
             "random fragmentation) TraceSystem.tla checks on every client write that only the named elements of the addressed property "
             "changed, to the values sent, and that the writer's view shows them afterwards. "
             "Device.tla models the driver side operationally (Vector.from_new_message child loop, set_value -> Write handlers -> setter -> "
             "rule -> publication -> Change handlers); TLC checks FrameOK and TakenOK (exactly the named elements of the addressed vector of "
             "the accepting devices take the submitted values, subject only to the switch rule) for every client write in a two-device "
             "deployment from every state reachable in <= 2 (3 thorough) operations. Real generated drivers (random deployments: 1-3 devices, "
             "five vector kinds, three rules, inheritance depth <= 3) execute random histories behind a real Router; every step is validated "
             "by TraceDevice.tla, which re-evaluates the frame and taken predicates on it.",
        design="6/C06", technique="TLA+ spec (Device.tla) + TLC model checking; TLC trace validation of real generated drivers"),
    "C07": dict(
        text="Device.tla's OpGetProperties is checked against ReplyExact (one definition per enabled addressed vector, listing exactly the "
             "enabled elements with current values and the vector's state; nothing for unknown devices / names) in TLC and on every "
             "getProperties step of the real-driver traces (bag comparison: order of definitions is free); every message any driver emits in "
             "any trace is serialised, re-parsed by the library's own parser and must compare equal and re-serialise identically, and the "
             "definition's metadata (group, label, perm, rule, element labels) is compared with the deployment.",
        design="6/C07", technique="TLA+ spec (Device.tla) + TLC model checking; TLC trace validation of real generated drivers"),
    "C09": dict(
        text="Device.tla restricted to one switch vector: TLC enumerates all three rules x 1..4 (5 thorough) switches x every initial "
             "configuration x every operation (assignment, bool/selected values, client writes naming 1-3 switches in every order) and checks "
             "RulePreserved, PubRuleOK (every published snapshot) and AssignOnOK on every transition. Every transition of every graph is "
             "replayed on a fresh real generated driver and validated by TraceDevice.tla; random deployments add switch vectors in context.",
        design="6/C09", technique="TLA+ spec (Device.tla) + TLC exhaustive model checking; one real-driver replay per transition, validated by TLC"),
    "C10": dict(
        text="Numbers.tla states rendering/denotation/INDI-grammar parsing in exact integer arithmetic; TLC checks Inverse, field ranges, "
             "RenderOK and ParseBack (all three separators) on the complete resolution grid of %.3m (all of %.3m/%.5m/%.6m in the thorough "
             "tier) and dense sub-grids of the finer formats, and exports the grammar corpus with exact denotations. Every corpus string goes "
             "through the real validator and str_to_num for nine formats; real renderings of grid, carry-point, (-1,0) and large values for "
             "all m formats and 125 printf formats are tokenised and judged by TLC (RenderOK / PrintfOK on exact limbs) together with the "
             "parse-back value.",
        design="6/C10", technique="TLA+ spec (Numbers.tla) + TLC exhaustive grid checking; TLC judges tokenised real renderings (NumbersJudge.tla)"),
    "C12": dict(
        text="Device.tla: client writes with unknown device / property / element, inconvertible values, wrong kinds and duplicates must never "
             "raise and may change only validly named elements (P_Robust, P_Frame in TLC and on every step of the real-driver traces). Transport "
             "level (Robust.tla): a fault catalogue of hostile-but-well-formed XML (unknown names, empty device, kind mismatch, invalid switch / "
             "number / base64 text, wrong / missing / non-numeric BLOB size, no children, duplicates, server-only kinds) is sent through the real "
             "TCP handler, the real TTY handler and direct router calls at every position of a session; after each, nothing raised, the "
             "connection is registered and open, other clients undisturbed, only allowed elements changed, and a valid getProperties is answered "
             "with the owed number of definitions - validated by TraceRobust.tla.",
        design="6/C12", technique="TLA+ specs (Device.tla, Robust.tla) + TLC model checking; TLC trace validation of real drivers and real TCP/TTY handler sessions"),
    "C13": dict(
        text="TLC generates XML infosets with one systematic perturbation of each constrained field / required attribute / child kind / "
             "tag (OnlyConformant checked on the model); each is written as XML and given to the real parser together with seeded random "
             "XML; the projection of everything the real parser accepts is sent back to TLC, which evaluates the declarative predicate "
             "Conformant on it (one-directional: rejecting is always fine).",
        design="6/C13", technique=CODEC_TECH + "; TLC judges the real parser's outputs (CodecJudge.tla)"),
    "C14": dict(
        text="Device.tla models raise_event exactly (plain handlers called in attachment order, coroutine handlers queued as tasks, veto via "
             "prevent_default, Read handlers on every value read, Change after publication); TLC checks WriteContract (each plain Write handler "
             "once with the requested value before any change, coroutine handlers queued, veto => nothing changes or is published, otherwise one "
             "update carrying the value and Change handlers once with old/new iff the value changed; assignment raises no Write) from every state "
             "reachable in <= 2 (3) operations. Generated real drivers carry the same handler configurations as @on methods that log what they "
             "saw; handler log, published messages and task counts of every step are validated by TraceDevice.tla.",
        design="6/C14", technique="TLA+ spec (Device.tla) + TLC model checking; TLC trace validation of real generated drivers with logging handlers"),
    "C15": dict(
        text="ClientMirror.tla's Recv is the reference interpreter of the INDI client rules (definition creates/replaces, update changes only the "
             "state and the listed elements, deletion removes the property or the whole device, unknown targets and kind mismatches ignored). TLC "
             "explores every stream of <= 3 (4 thorough) messages over a 2x2x3 name universe with callbacks. Seeded random streams (redefinition, "
             "partial updates, kind mismatches, unknown targets, empty BLOB payloads, device deletion, foreign messages) are written in 64 foreign "
             "spellings, fragmented randomly and fed through the real client connection handler into a real BaseClient; after every message the "
             "public view must equal the interpreter's, nothing may be raised and the receive task must be alive (TraceClientMirror.tla).",
        design="6/C15", technique="TLA+ spec (ClientMirror.tla reference interpreter) + TLC model checking; TLC trace validation of a real client fed through the real handler"),
    "C16": dict(
        text="Same traces with callbacks of every filter combination (device/vector/element/type each absent, matching, non-matching; plain, "
             "coroutine, raising) registered and removed by id, by criteria and from inside a dispatch. TLC checks in the model and re-evaluates ON "
             "THE OBSERVED EVENTS, independently of the model: ChainStep (each event's old value is the previous event's new value per element / "
             "vector incarnation), LastIsCurrent (the last new value is what the public view shows), NoIdleEvents, ExpectedCalls (calls = matching "
             "registered callbacks, in order) and never-after-removal; an ill-formed BLOB update closes some traces to show that a rejected update "
             "changes nothing silently.",
        design="6/C16", technique="TLA+ spec (ClientMirror.tla) + TLC model checking; TLC trace validation incl. contract predicates evaluated on observed events"),
    "C17": dict(
        text="WaitForEvent.tla models the wait on a discrete virtual clock (arrivals on the half grid, timers on the grid, the callback "
             "synchronous inside message processing, the waiter resuming one loop iteration later); TLC checks Outcome (first match or timeout "
             "at its instant, never both, never neither), PollSchedule, NoPollAfterDone, CallbackRemoved for every schedule of <= 3 arrivals x "
             "timeout x polling, and that last-match-wins violates Outcome. The real coroutine runs under a virtual-clock loop for the same "
             "schedule space x six condition/event kinds, alone, beside an independent second wait and beside an identical overlapping wait; "
             "outcome, completion instant, polling instants and callback registration are validated by TraceWaitForEvent.tla.",
        design="6/C17", technique="TLA+ spec (WaitForEvent.tla) + TLC exhaustive model checking; TLC trace validation of real waitforevent runs under virtual time"),
    "C18": dict(
        text="Transport.tla models the three connection handlers at await granularity on asyncio's FIFO loop (Tick = one iteration); "
             "TLC explores every interleaving of accepts, inputs (messages, junk, partial element, EOF, reset, raising device), device "
             "messages, loop iterations and completions/failures of awaitables for 2 connections and checks CleanEnd, PolicyOnlyForClients, "
             "NoDeliveryAfterEnd, OthersServed. Real TCP/TTY handlers run on fake streams under a stepping loop: every fault kind is injected "
             "after every step of a session script (both transports) plus seeded random sessions; each step is projected (router.clients, "
             "blob_routing, writer.closed, output streams) and validated against the model step by step and against the property-level "
             "contract (TraceTransportContract.tla); only contract rejections are violations.",
        design="6/C18", technique="TLA+ spec (Transport.tla) + TLC exhaustive model checking; TLC trace validation of real handlers (model + contract)"),
    "C19": dict(
        text="Same model: send tasks, sender lock (asyncio.Lock semantics incl. queued waiters), TCP write+drain, TTY thread-pool write+flush; "
             "TLC checks WholeInOrder/PrefixWhenNoFailure/OneInFlight in all schedules, Isolation as fair liveness with one connection stalled, "
             "and that the lock-less TTY variant violates them. Real handlers: DFS over all schedules (route next / one loop iteration / complete "
             "or fail any outstanding awaitable) for bursts on 1-3 connections of each transport incl. a never-completing connection; output "
             "streams are split by an independent splitter and compared with what was routed, at every step, by TLC.",
        design="6/C19", technique="TLA+ spec (Transport.tla) + TLC exhaustive model checking and fair liveness; TLC trace validation of real handlers (model + contract)"),
    "C20": dict(
        text="TLC generates pairs (message, single-point perturbation or rebuilt copy) over the codec grammar with the structural verdict "
             "a = b on the abstract trees (EqIffSame checked on the model); both sides are built as real objects (fresh, through the wire, "
             "and by editing a compared copy in place) and ==/!= in both directions must agree with TLC's verdict.",
        design="6/C20", technique=CODEC_TECH),
    "C04": dict(
        text="Router.tla (one action per Router method, process_message as the code's two loops) is model-checked "
             "exhaustively by TLC against the declarative statements ToDevices/NoLeak on every transition of the bounded "
             "universe; the real indi.routing.Router is bound to it by trace validation: every reachable model state is "
             "rebuilt through the public API and exercised, plus seeded random histories in a larger universe, and "
             "TraceRouter.tla re-evaluates the properties on every recorded step.",
        design="6/C04", technique="TLA+ spec + TLC exhaustive model checking; TLC trace validation of real Router histories"),
    "C05": dict(
        text="Same model and traces as C04 with the client-side clauses: FanOut against the enableBLOB matrix, "
             "Independence, EnableTakesEffect, Forgotten, Fresh; the as-is delivery test (AsIs=TRUE) is shown to violate "
             "FanOut in the self-test and reachability probes show the BLOB/Only, Also/non-BLOB and catch-all cases occur.",
        design="6/C05", technique="TLA+ spec + TLC exhaustive model checking; TLC trace validation of real Router histories"),
}

# what was added after the first build (rounds of seeded changes, reverted repairs): appended to the texts above
ADDED = {
    "C01": "Links may exert back-pressure (drain() returns only once the peer has taken the data); 'storm' operations route several "
           "updates with single loop iterations / single delivered pieces in between; such traces are judged as unordered across connections.",
    "C02": "Two real server connections with piecewise interleaved streams are each framed on their own; messages of 66-140 kB "
           "(no tag end for more than any stream-buffer size) pass through the real BLOB-connection handler.",
    "C04": "Endpoints may call the router from inside their own callback: every nested message is judged on its own (TraceRouter SubsOK); "
           "device names include one that contains another and the empty name.",
    "C05": "Endpoints may call the router from inside their own callback: every nested message is judged on its own (TraceRouter SubsOK); "
           "device names include one that contains another and the empty name.",
    "C06": "Client side: ClientMirror.tla models pending assignments and submit; MC_ClientWrite checks P_SubmitExact / P_EditSilent / "
           "P_PendingSurvivesUpdate and real Vector.submit traces are validated (exactly the members assigned since the last submit). "
           "End-to-end truth distinguishes the exact from the rendered number; applications assign text and float objects. "
           "SystemW.tla: two clients over independently scheduled channels, client writes of one element racing with driver-side "
           "assignments (Converged, WriteExact, NoStaleOverwrite; 17 M states thorough; a client re-sending untouched members violates).",
    "C07": "Outside a write every published update / definition lists the values held afterwards (P_PubCurrent, PubCurrentObs, with "
           "reset_value as an operation); number elements are declared with and without limits / format. Behaviours of Device.tla "
           "generated by TLC's simulator on the deployment GenD are replayed into real drivers.",
    "C08": "Back-pressure bursts (a large BLOB, a small BLOB of another property and a text update routed before anything is delivered), the "
           "same bytes under another format, one BLOB object mutated in place and published again, payloads of 70 001 and 150 000 bytes in "
           "the quick tier.",
    "C09": "Every transition also with a publication that fails on the way (assignfail) and with a vetoing Write handler on each switch; "
           "SelectOnOK for selected_value(s).",
    "C10": "A live Number element (instance/elements.py) takes histories of values by assignment, reset_value and client write; the text it "
           "publishes after each step is judged by the same TLC judge as num_to_str.",
    "C12": "Sessions also from a sender the router does not know; enableBLOB with and without a property name; well-formed numbers of "
           "hundreds of digits (found D26); Latin-1 bytes >= 0x80.",
    "C14": "Several coroutine handlers on one event, stacked / list-form @on, vetoed writes on every exclusive switch configuration, "
           "TLC-simulated behaviours of Device.tla replayed into real drivers; the order in which pending coroutine handlers run is not compared.",
    "C15": "The application's own assignments / submits and updates that clear an element are part of the streams; the client's second "
           "connection is a second real handler and reads of the two connections interleave inside messages (recv2).",
    "C16": "The application's own assignments / submits and updates that clear an element are part of the streams; the client's second "
           "connection is a second real handler and reads of the two connections interleave inside messages (recv2).",
    "C17": "Wait kinds include waiting for an element to be cleared (new value None).",
    "C18": "A library call that does not return within 120 s of one loop iteration is reported as a violation (watchdog).",
    "C19": "Bursts include messages longer than 64 KiB and BLOB updates on connections that enabled BLOBs.",
    "C20": "Long values sharing a 1500-character prefix; an optional attribute present with 0 / empty string against the same message without it.",
    "C11": "A Buffer.process call that does not return within 30 s is reported as non-termination (wall-clock watchdog besides the callback count).",
}
for _k, _t in ADDED.items():
    CHECKS[_k]["text"] += " Added later: " + _t

PENDING = {
}

ALL = ["C%02d" % i for i in range(1, 21)]


def build() -> dict:
    checks = []
    for pid in sorted(CHECKS):
        c = CHECKS[pid]
        checks.append({
            "property_id": pid,
            "quick_cmd": f"./check {pid} --tier quick",
            "thorough_cmd": f"./check {pid} --tier thorough",
            "evidence_file": f"/verif/evidence/{pid}.json",
            "replay_cmd_template": f"./check {pid} --replay {{path}}",
            "engine": "tlc",
            "level_claimed": {"category": "model_checking", "text": c["text"], "design_ref": c["design"]},
            "level_note": c.get("note", BASE_NOTE),
            "technique": c["technique"],
        })
    na = [{"property_id": p, "reason": PENDING.get(p, "check not built yet in this session (see DESIGN.md section 10 build order)")}
          for p in ALL if p not in CHECKS]
    return {
        "version": 1,
        "setup_cmd": "cd /verif && ./check setup",
        "hooks": {
            "guard": "INDIPY_VERIF",
            "enable": "no source hooks: checks import /repo's working tree (PYTHONPATH) and observe through public API, "
                      "harness subclasses and fake streams; INDIPY_VERIF=1 is exported by the harness but read by nothing in /repo",
            "baseline_off_cmd": "cd /repo && env -u INDIPY_VERIF /venv/bin/python -m pytest -ra -q -p no:cacheprovider --timeout=900 --continue-on-collection-errors",
            "source_commits": [],
            "add_only": True,
        },
        "engines": [{"name": "tlc", "path": "/opt/veriftools/tla/tla2tools.jar",
                     "serves_properties": sorted(CHECKS),
                     "kind_free_text": "explicit-state model checker for the TLA+ modules in /verif/spec; also used in batch "
                                       "trace-validation mode (Trace*.tla) on traces recorded from the real code"}],
        "checks": checks,
        "not_applicable": na,
        "notes": "All checks: ./check <id> --tier quick|thorough (VERIF_SEED, VERIF_TIER honoured; VERIF_REPO overrides /repo). "
                 "Exit 2 = machinery failure. known_findings.txt lists recorded findings and fixed defects.",
    }


def run() -> int:
    m = build()
    with open(os.path.join(VERIF, "MANIFEST.json"), "w") as f:
        json.dump(m, f, indent=1)
    print(f"MANIFEST.json: {len(m['checks'])} checks, {len(m['not_applicable'])} not claimed")
    return 0
