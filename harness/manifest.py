"""Regenerates /verif/MANIFEST.json from the table below (./check manifest)."""
import json
import os

VERIF = os.path.dirname(os.path.dirname(os.path.abspath(__file__)))

BASE_NOTE = ("Trusted base: TLC + CommunityModules, CPython/asyncio/ElementTree, the harness's fakes, projection and "
             "abstraction code; TLC results are exhaustive only inside the stated bounds, beyond them the claim rests "
             "on the seeded conformance runs.")

CHECKS = {
    "C04": dict(
        text="Router.tla (one action per Router method, process_message as the code's two loops) is model-checked "
             "exhaustively by TLC against the declarative statements ToDevices/NoLeak on every transition of the bounded "
             "universe; the real indi.routing.Router is bound to it by trace validation: every reachable model state is "
             "rebuilt through the public API and exercised, plus seeded random histories in a larger universe, and "
             "TraceRouter.tla re-evaluates the properties on every recorded step.",
        design="6/C04", technique="TLA+ spec + TLC exhaustive model checking; TLC trace validation of real Router histories"),
    "C05": dict(
        text="Same model and traces as C04 with the client-side clauses: FanOut against the enableBLOB matrix, "
             "Independence, EnableTakesEffect, Forgotten, Fresh; the as-is delivery test (AsIs=TRUE) is shown to violate "
             "FanOut in the self-test and reachability probes show the BLOB/Only, Also/non-BLOB and catch-all cases occur.",
        design="6/C05", technique="TLA+ spec + TLC exhaustive model checking; TLC trace validation of real Router histories"),
}

PENDING = {
}

ALL = ["C%02d" % i for i in range(1, 21)]


def build() -> dict:
    checks = []
    for pid in sorted(CHECKS):
        c = CHECKS[pid]
        checks.append({
            "property_id": pid,
            "quick_cmd": f"./check {pid} --tier quick",
            "thorough_cmd": f"./check {pid} --tier thorough",
            "evidence_file": f"/verif/evidence/{pid}.json",
            "replay_cmd_template": f"./check {pid} --replay {{path}}",
            "engine": "tlc",
            "level_claimed": {"category": "model_checking", "text": c["text"], "design_ref": c["design"]},
            "level_note": c.get("note", BASE_NOTE),
            "technique": c["technique"],
        })
    na = [{"property_id": p, "reason": PENDING.get(p, "check not built yet in this session (see DESIGN.md section 10 build order)")}
          for p in ALL if p not in CHECKS]
    return {
        "version": 1,
        "setup_cmd": "cd /verif && ./check setup",
        "hooks": {
            "guard": "INDIPY_VERIF",
            "enable": "no source hooks: checks import /repo's working tree (PYTHONPATH) and observe through public API, "
                      "harness subclasses and fake streams; INDIPY_VERIF=1 is exported by the harness but read by nothing in /repo",
            "baseline_off_cmd": "cd /repo && env -u INDIPY_VERIF /venv/bin/python -m pytest -ra -q -p no:cacheprovider --timeout=900 --continue-on-collection-errors",
            "source_commits": [],
            "add_only": True,
        },
        "engines": [{"name": "tlc", "path": "/opt/veriftools/tla/tla2tools.jar",
                     "serves_properties": sorted(CHECKS),
                     "kind_free_text": "explicit-state model checker for the TLA+ modules in /verif/spec; also used in batch "
                                       "trace-validation mode (Trace*.tla) on traces recorded from the real code"}],
        "checks": checks,
        "not_applicable": na,
        "notes": "All checks: ./check <id> --tier quick|thorough (VERIF_SEED, VERIF_TIER honoured; VERIF_REPO overrides /repo). "
                 "Exit 2 = machinery failure. known_findings.txt lists recorded findings and fixed defects.",
    }


def run() -> int:
    m = build()
    with open(os.path.join(VERIF, "MANIFEST.json"), "w") as f:
        json.dump(m, f, indent=1)
    print(f"MANIFEST.json: {len(m['checks'])} checks, {len(m['not_applicable'])} not claimed")
    return 0
