"""Shared plumbing of the checks: repository import path, verdicts, replay files, evidence."""
from __future__ import annotations

import hashlib
import json
import os
import random
import sys
import time
import traceback
from typing import Any, Dict, List, Optional

VERIF = os.path.dirname(os.path.dirname(os.path.abspath(__file__)))
REPO = os.environ.get("VERIF_REPO", "/repo")
EVIDENCE_DIR = os.environ.get("VERIF_EVIDENCE_DIR") or os.path.join(VERIF, "evidence")
REPLAY_DIR = os.path.join(EVIDENCE_DIR, "replays") if os.environ.get("VERIF_EVIDENCE_DIR") else os.path.join(VERIF, "replays")
KNOWN_FINDINGS = os.path.join(VERIF, "known_findings.txt")


def use_repo() -> None:
    """Make `import indi` resolve to the current working tree of the repository."""
    if REPO not in sys.path:
        sys.path.insert(0, REPO)
    os.environ.setdefault("INDIPY_VERIF", "1")
    import logging
    logging.disable(logging.CRITICAL)


def seed() -> int:
    try:
        return int(os.environ.get("VERIF_SEED", "0"))
    except ValueError:
        return 0


def rng(salt: str = "") -> random.Random:
    return random.Random(f"{seed()}:{salt}")


def load_known_findings() -> List[Dict[str, str]]:
    """Lines `finding: property=<id> sig=<signature> <text>`; `fixed:` lines suppress nothing."""
    out = []
    if os.path.exists(KNOWN_FINDINGS):
        for line in open(KNOWN_FINDINGS):
            line = line.strip()
            if not line.startswith("finding:"):
                continue
            parts = line[len("finding:"):].split()
            d = {"text": line}
            for p in parts:
                if p.startswith("property="):
                    d["property"] = p.split("=", 1)[1]
                if p.startswith("sig="):
                    d["sig"] = p.split("=", 1)[1]
            out.append(d)
    return out


class Verdict:
    """Collects what one check run did and produces the evidence file and the exit code."""

    def __init__(self, prop: str, tier: str):
        self.prop = prop
        self.tier = tier
        self.t0 = time.time()
        self.states = 0
        self.transitions = 0
        self.traces_validated = 0
        self.evaluations = 0
        self.distinct: set = set()
        self.samples: List[Any] = []
        self.violations: List[str] = []
        self.known_met: Dict[str, int] = {}
        self.actions: Dict[str, int] = {}
        self.notes: Dict[str, Any] = {}
        self.assumptions: List[str] = []
        self.exhaustive: Optional[bool] = None
        self.rule = ""
        self._known = [k for k in load_known_findings() if k.get("property") == prop]
        self.max_violation_lines = 20

    # -- model checking bookkeeping
    def add_tlc(self, res, label: str) -> None:
        self.states += res.distinct
        self.transitions += res.generated
        self.notes.setdefault("tlc_runs", []).append(
            {"run": label, "distinct": res.distinct, "generated": res.generated, "wall_s": round(res.wall_s, 1)})
        for a, n in res.coverage.items():
            self.actions[a] = self.actions.get(a, 0) + n

    def count_action(self, name: str, n: int = 1) -> None:
        self.actions[name] = self.actions.get(name, 0) + n

    def phase(self, name: str) -> None:
        now = time.time()
        self.notes.setdefault("phases_s", {})[name] = round(now - getattr(self, "_tp", self.t0), 1)
        self._tp = now

    def sample(self, s: Any, limit: int = 3) -> None:
        if len(self.samples) < limit:
            self.samples.append(s)

    def nontrivial(self, key: Any) -> None:
        # (only a 64-bit digest is kept: the thorough tiers count tens of millions of cases)
        k = key if isinstance(key, (str, int)) else (repr(key) if isinstance(key, tuple) else json.dumps(key, sort_keys=True, default=str))
        self.distinct.add(k if isinstance(k, int) else int.from_bytes(hashlib.blake2b(k.encode("utf-8", "replace"), digest_size=8).digest(), "big"))

    # -- verdicts
    def violation(self, what: str, replay: Any, sig: Optional[str] = None) -> None:
        """Record a violation (or a known finding if `sig` is listed in known_findings.txt)."""
        if sig is not None:
            for k in self._known:
                if k.get("sig") == sig:
                    self.known_met[sig] = self.known_met.get(sig, 0) + 1
                    return
        os.makedirs(REPLAY_DIR, exist_ok=True)
        body = json.dumps({"property": self.prop, "what": what, "sig": sig, "replay": replay},
                          indent=1, default=str, sort_keys=True)
        h = hashlib.sha1(body.encode()).hexdigest()[:12]
        path = os.path.join(REPLAY_DIR, f"{self.prop}-{h}.json")
        with open(path, "w") as f:
            f.write(body)
        self.violations.append(path)
        if len(self.violations) <= self.max_violation_lines:
            print(f"VIOLATION property={self.prop} replay={path}")
            print(f"  what: {what[:600]}")
        sys.stdout.flush()

    def finish(self) -> int:
        for sig, n in sorted(self.known_met.items()):
            txt = next((k["text"] for k in self._known if k.get("sig") == sig), sig)
            print(f"KNOWN-FINDING: property={self.prop} {txt.split('sig=' + sig, 1)[-1].strip()} (sig={sig}, met {n}x)")
        cov: Dict[str, Any] = {
            "states": max(self.states, 0),
            "transitions": max(self.transitions, 0),
            "traces_validated_against_impl": self.traces_validated,
            "evaluations": self.evaluations,
            "distinct_nontrivial": len(self.distinct),
            "rule": self.rule,
            "samples": self.samples or ["(no sample recorded)"],
            "actions": self.actions,
            "known_findings_met": self.known_met,
        }
        if self.exhaustive is not None:
            cov["exhaustive"] = self.exhaustive
        cov.update(self.notes)
        ev = {
            "property_id": self.prop,
            "tier": self.tier,
            "seed": seed(),
            "level": "model_checking",
            "coverage": cov,
            "assumptions": self.assumptions,
            "wall_s": round(time.time() - self.t0, 2),
            "violations": len(self.violations),
        }
        os.makedirs(EVIDENCE_DIR, exist_ok=True)
        with open(os.path.join(EVIDENCE_DIR, f"{self.prop}.json"), "w") as f:
            json.dump(ev, f, indent=1, default=str)
        if len(self.violations) > self.max_violation_lines:
            print(f"... {len(self.violations) - self.max_violation_lines} further violations not printed")
        status = "FAIL" if self.violations else "PASS"
        print(f"{status} {self.prop} tier={self.tier} states={self.states} transitions={self.transitions} "
              f"traces={self.traces_validated} evaluations={self.evaluations} "
              f"distinct_nontrivial={len(self.distinct)} wall={ev['wall_s']}s")
        return 1 if self.violations else 0


def intern_table():
    """String interning for TLC (ASCII tokens only, see DESIGN 5.4)."""
    table: Dict[Any, str] = {}
    rev: Dict[str, Any] = {}

    def tok(x: Any, prefix: str = "s") -> str:
        if x not in table:
            t = f"{prefix}{len(table)}"
            table[x] = t
            rev[t] = x
        return table[x]
    tok.table = table  # type: ignore[attr-defined]
    tok.rev = rev      # type: ignore[attr-defined]
    return tok
