"""A last-resort bound on calls into the library: a call that does not return is a finding, not a hung check.

`bounded(seconds, what)` arms an interval timer around a call (main thread only; elsewhere it does nothing).  When it fires,
`Stalled` - a BaseException, so that `except Exception` in the code under test cannot swallow it - is raised inside the call,
and again every second until the call is left.  The limits used are three to four orders of magnitude above what the calls take
(micro- to milliseconds on inputs of a few kB), so machine load cannot trigger them.
"""
from __future__ import annotations

import signal
import threading
from contextlib import contextmanager

_depth = 0
fired_total = 0          # after a few stalls a check stops exploring: every further one would cost the full limit again


class Stalled(KeyboardInterrupt):
    """(derived from KeyboardInterrupt so that asyncio tasks re-raise it instead of storing it)"""


class _State:
    fired = ""


@contextmanager
def bounded(seconds: float, what: str):
    global _depth
    st = _State()
    if _depth or threading.current_thread() is not threading.main_thread():
        yield st
        return

    def on_alarm(signum, frame):
        global fired_total
        if not st.fired:
            fired_total += 1
        st.fired = f"{what}: no return within {seconds:g} s"
        raise Stalled(st.fired)
    old = signal.signal(signal.SIGALRM, on_alarm)
    _depth += 1
    signal.setitimer(signal.ITIMER_REAL, seconds, 1.0)
    try:
        yield st
    finally:
        signal.setitimer(signal.ITIMER_REAL, 0)
        signal.signal(signal.SIGALRM, old)
        _depth -= 1
