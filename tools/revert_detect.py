#!/venv/bin/python
"""Does each repaired defect come back as a violation?

For every `fixed:` line of known_findings.txt: scratch worktree of /repo HEAD, `git revert -n <commit>` (that one repair only),
run `./check <property>` (quick tier) against it through VERIF_REPO, record exit code and first violation in
seeded/reverted.json.  A revert that does not apply cleanly (a later repair touched the same lines) is recorded as such.
Usage: tools/revert_detect.py [commit ...]
"""
import json
import os
import re
import subprocess
import sys
import tempfile
import shutil

VERIF = os.path.dirname(os.path.dirname(os.path.abspath(__file__)))
OUT = os.path.join(VERIF, "seeded", "reverted.json")


def sh(cmd, **kw):
    return subprocess.run(cmd, shell=True, stdout=subprocess.PIPE, stderr=subprocess.STDOUT, text=True, **kw)


def main():
    only = set(sys.argv[1:])
    rows = json.load(open(OUT)) if os.path.exists(OUT) else {}
    for line in open(os.path.join(VERIF, "known_findings.txt")):
        m = re.match(r"fixed:\s+property=(C\d+)\s+([0-9a-f]{7})\s+(.*)", line)
        if not m:
            continue
        prop, commit, what = m.groups()
        if only and commit not in only:
            continue
        d = tempfile.mkdtemp(prefix="rv-", dir="/tmp")
        os.rmdir(d)
        assert sh(f"git -C /repo worktree add -q --detach {d} HEAD").returncode == 0
        try:
            rv = sh(f"git -C {d} revert -n {commit}")
            how = "clean"
            if rv.returncode != 0:
                # a later repair touches the same lines: use the hand-made equivalent (seeded/reverted/<commit>.diff) if there is one
                manual = os.path.join(VERIF, "seeded", "reverted", commit + ".diff")
                sh(f"git -C {d} revert --abort; git -C {d} checkout -q -- .")
                if not os.path.exists(manual) or sh(f"git -C {d} apply {manual}").returncode != 0:
                    rows[commit] = {"property": prop, "what": what[:160], "revert": "does not apply on HEAD (a later repair touches the same lines)"}
                    print(commit, prop, "revert conflict")
                    continue
                how = "hand-made equivalent seeded/reverted/%s.diff" % commit
            ev = tempfile.mkdtemp(prefix="rvev-", dir="/tmp")
            r = sh(f"cd {VERIF} && timeout 3000 ./check {prop} --tier quick", env=dict(os.environ, VERIF_REPO=d, VERIF_EVIDENCE_DIR=ev))
            shutil.rmtree(ev, ignore_errors=True)
            first = next((l.strip() for l in r.stdout.splitlines() if l.strip().startswith("what:")), "")
            nviol = sum(1 for l in r.stdout.splitlines() if l.startswith("VIOLATION"))
            rows[commit] = {"property": prop, "what": what[:160], "revert": how, "exit": r.returncode, "violations": nviol, "first": first[:300]}
            print(commit, prop, "exit", r.returncode, "violations", nviol, first[:160])
        finally:
            sh(f"git -C /repo worktree remove --force {d}")
            shutil.rmtree(d, ignore_errors=True)
            json.dump(rows, open(OUT, "w"), indent=1)


if __name__ == "__main__":
    main()
