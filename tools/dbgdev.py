#!/venv/bin/python
import json, os, sys, tempfile, re
sys.path.insert(0, '/verif')
from harness import tlc
from harness.checks import device
rp = json.load(open(sys.argv[1]))["replay"]
t = device.run_trace(rp["dep"], lambda w: rp["ops"])
wd = tempfile.mkdtemp()
path = os.path.join(wd, "t.json")
json.dump([t], open(path, "w"))
res = tlc.run_tlc("TraceDevice", "TraceDevice.cfg", workers=1, env={"TRACE_FILE": path, "VERIF_DEBUG": "1"}, workdir=wd)
out = res.stdout
m = re.search(r'<<"REJECT", 1, (\d+)>>', out)
if not m:
    print("ACCEPTED on replay"); print(out[-800:]); sys.exit()
k = int(m.group(1))
print("rejected at l =", k, "inherit", rp["dep"].get("inherit"))
i = out.find('<< "POST",\n   %d,' % k)
j = out.find('<< "POST",\n   %d,' % (k+1))
print(re.sub(r"\s+"," ", out[i:j if j>0 else i+3000])[:2500])
print("devs/vecs:", [(v["dev"], v["name"], v["kind"], v.get("rule"), v["grp"], v["elems"], v["een"]) for v in rp["dep"]["vecs"]])
print("hs:", rp["dep"]["hs"])
print("OP  :", {x: t["ev"][k-1][x] for x in t["ev"][k-1] if x != "obs"})
print("REAL:", json.dumps(t["ev"][k-1]["obs"])[:2500])
