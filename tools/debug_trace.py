#!/venv/bin/python
"""debug_trace.py <replay.json>: re-run a device replay and print the model's expected post-state next to the observed one"""
import json, os, sys, re, subprocess, tempfile
sys.path.insert(0, os.path.dirname(os.path.dirname(os.path.abspath(__file__))))
from harness import tlc
from harness.checks import device
rp = json.load(open(sys.argv[1]))["replay"]
t = device.run_trace(rp["dep"], lambda w: rp["ops"])
k = rp["rejected_step"]
wd = tempfile.mkdtemp()
path = os.path.join(wd, "t.json")
json.dump([t], open(path, "w"))
res = tlc.run_tlc("TraceDevice", "TraceDevice.cfg", workers=1, env={"TRACE_FILE": path, "VERIF_DEBUG": "1"}, workdir=wd)
posts = re.findall(r'<<"POST", (\d+), (.*?)>>\n(?=<<|\S)', res.stdout + "\n<<", re.S)
print("devs/vecs:", [(v["dev"], v["name"], v["kind"], v["grp"]) for v in rp["dep"]["vecs"]])
print("hs:", rp["dep"]["hs"])
print("op:", {x: t["ev"][k][x] for x in t["ev"][k] if x != "obs"})
for n, body in posts:
    if int(n) == k + 1:
        print("MODEL :", re.sub(r"\s+", " ", body)[:3000])
print("REAL  :", json.dumps(t["ev"][k]["obs"])[:3000])
