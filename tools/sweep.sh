#!/bin/bash
# tools/sweep.sh <tier> <seed...>: run every check with the given seeds (evidence redirected), print one line per run
tier=$1; shift
for seed in "$@"; do
  for p in ${PROPS:-C01 C02 C03 C04 C05 C06 C07 C08 C09 C10 C11 C12 C13 C14 C15 C16 C17 C18 C19 C20}; do
    start=$(date +%s)
    out=$(VERIF_SEED=$seed VERIF_EVIDENCE_DIR=/tmp/sweep_ev_${tier}_$seed timeout 14000 ./check $p --tier $tier 2>&1)
    rc=$?
    echo "seed=$seed $p rc=$rc $(( $(date +%s) - start ))s $(echo "$out" | grep -E '^(PASS|FAIL|MACHINERY|KNOWN)' | tr '\n' ' ' | cut -c1-260)"
    if [ $rc -ne 0 ]; then echo "$out" | grep -E "what:" | head -3 | cut -c1-500; fi
  done
done
