#!/venv/bin/python
"""Behaviour-preserving refactorings: the checks must stay quiet.

  refcheck.py adopt <src_dir> <name> [n] copy patch[n].diff / equiv.py or demo[n].py / notes[n].md into /verif/seeded/refactorings/<name>/
  refcheck.py run <name> [prop ...]      scratch worktree + patch; equiv.py transcript on clean vs patched; every (or the given) quick
                                         check against the patched tree; results in meta.json
A refactoring that really preserves behaviour must give exit 0 everywhere; an exit 1 is either a behavioural change the author
missed (then the finding is recorded with the reason) or a false alarm of the machinery (to be corrected).
"""
import json
import os
import shutil
import subprocess
import sys
import tempfile

VERIF = os.path.dirname(os.path.dirname(os.path.abspath(__file__)))
BASE = os.path.join(VERIF, "seeded", "refactorings")
PY = "/venv/bin/python"
PROPS = ["C%02d" % i for i in range(1, 21)]


def sh(cmd, **kw):
    return subprocess.run(cmd, shell=True, stdout=subprocess.PIPE, stderr=subprocess.STDOUT, text=True, **kw)


def adopt(src, name, n=""):
    """n = "": a refactoring (patch.diff, equiv.py, notes.md); n = "1"/"2": a property-preserving behaviour change
    (patch<n>.diff, demo<n>.py, notes<n>.md; no equivalence script - behaviour differs on purpose)"""
    dst = os.path.join(BASE, name)
    os.makedirs(dst, exist_ok=True)
    for f, g in ((f"patch{n}.diff", "patch.diff"), ("equiv.py", "equiv.py"), (f"demo{n}.py", "demo.py"), (f"notes{n}.md", "notes.md")):
        if os.path.exists(os.path.join(src, f)) and (n or not f.startswith("demo")):
            shutil.copy(os.path.join(src, f), os.path.join(dst, g))
    origin = ("independent sub-agent asked for a behaviour-preserving refactoring" if not n else
              "independent sub-agent asked for a change of observable behaviour that keeps every listed property true")
    json.dump({"name": name, "origin": origin, "results": {}}, open(os.path.join(dst, "meta.json"), "w"), indent=1)


def run(name, props):
    dst = os.path.join(BASE, name)
    meta = json.load(open(os.path.join(dst, "meta.json")))
    d = tempfile.mkdtemp(prefix="rf-", dir="/tmp")
    os.rmdir(d)
    assert sh(f"git -C /repo worktree add -q --detach {d} HEAD").returncode == 0
    try:
        eq = os.path.join(dst, "equiv.py")
        env = dict(os.environ, PYTHONPATH=d, PYTHONHASHSEED="0")
        clean = subprocess.run([PY, eq], cwd=d, env=env, stdout=subprocess.PIPE, stderr=subprocess.STDOUT, text=True, timeout=900).stdout if os.path.exists(eq) else ""
        ap = sh(f"git -C {d} apply {os.path.join(dst, 'patch.diff')}")
        assert ap.returncode == 0, "patch does not apply: " + ap.stdout
        patched = subprocess.run([PY, eq], cwd=d, env=env, stdout=subprocess.PIPE, stderr=subprocess.STDOUT, text=True, timeout=900).stdout if os.path.exists(eq) else ""
        if os.path.exists(eq):
            meta["equiv_transcripts_equal"] = clean == patched
        meta["lines_changed"] = sh(f"git -C {d} diff --shortstat").stdout.strip()
        for p in props or PROPS:
            evd = tempfile.mkdtemp(prefix="rfev-", dir="/tmp")
            r = subprocess.run([os.path.join(VERIF, "check"), p, "--tier", "quick"], cwd=VERIF,
                               env=dict(os.environ, VERIF_REPO=d, VERIF_EVIDENCE_DIR=evd), stdout=subprocess.PIPE, stderr=subprocess.STDOUT, text=True)
            shutil.rmtree(evd, ignore_errors=True)
            what = [ln.strip() for ln in r.stdout.splitlines() if ln.strip().startswith("what:")]
            notes = [ln.strip() for ln in r.stdout.splitlines() if ln.startswith("NOTE:")]
            meta["results"][p] = {"exit": r.returncode, "first": what[0][:400] if what else "", "notes": [n[:200] for n in notes][:2]}
            print(name, p, "exit", r.returncode, (what[0][:160] if what else ""), ("| " + notes[0][:100]) if notes else "", flush=True)
            json.dump(meta, open(os.path.join(dst, "meta.json"), "w"), indent=1)
    finally:
        sh(f"git -C /repo worktree remove --force {d}")
        shutil.rmtree(d, ignore_errors=True)
        json.dump(meta, open(os.path.join(dst, "meta.json"), "w"), indent=1)


if __name__ == "__main__":
    if sys.argv[1] == "adopt":
        adopt(sys.argv[2], sys.argv[3], sys.argv[4] if len(sys.argv) > 4 else "")
    else:
        run(sys.argv[2], sys.argv[3:])
