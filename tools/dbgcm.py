#!/venv/bin/python
import json, os, sys, tempfile, re
sys.path.insert(0, '/verif')
from harness import tlc
rp = json.load(open(sys.argv[1]))["replay"]
prop = os.path.basename(sys.argv[1])[:3]
k = rp["rejected_step"]
# rebuild the trace from the stored observation only up to the rejected step is not possible without re-execution: the replay keeps ops;
# re-execute with a fresh world (same ops; spelling / fragmentation random but irrelevant)
from harness.common import rng
from harness.checks import clientmirror as CM
w = CM.World(rng("dbg"))
t = [w.apply(op) for op in rp["ops"][:k+1]]
w.close()
wd = tempfile.mkdtemp()
path = os.path.join(wd, "t.json")
json.dump([t], open(path, "w"))
res = tlc.run_tlc("TraceClientMirror", f"TraceClientMirror_{prop}.cfg", workers=1, env={"TRACE_FILE": path, "VERIF_DEBUG": "1"}, workdir=wd)
out = res.stdout
m = re.search(r'<<"REJECT", 1, (\d+)>>', out)
if not m:
    print("ACCEPTED on replay"); print(out[-600:]); sys.exit()
kk = int(m.group(1))
i = out.find('<< "POST",\n   %d,' % kk)
j = out.find('<< "POST",\n   %d,' % (kk+1))
if j < 0: j = out.find('<<"BATCH"')
print("rejected at l =", kk)
print("MODEL:", re.sub(r"\s+"," ", out[i:j])[:3000])
print("OP   :", json.dumps({x: t[kk-1][x] for x in t[kk-1] if x != "obs"}))
print("REAL :", json.dumps(t[kk-1]["obs"])[:3000])
