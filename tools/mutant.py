#!/venv/bin/python
"""Seeded-change bookkeeping.

  mutant.py adopt  <src_dir> <prop> <n> <name>   copy patch<n>.diff/demo<n>.py/notes<n>.md into /verif/seeded/<name>/
  mutant.py verify <name>                        scratch worktree: demo passes clean, fails patched; full test suite passes patched
  mutant.py detect <name> [prop ...]             run ./check <prop> (default: the property it breaks) against a patched scratch worktree
"""
import json
import os
import shutil
import subprocess
import sys
import tempfile
import time

VERIF = os.path.dirname(os.path.dirname(os.path.abspath(__file__)))
SEEDED = os.path.join(VERIF, "seeded")
PY = "/venv/bin/python"


def sh(cmd, **kw):
    return subprocess.run(cmd, shell=True, stdout=subprocess.PIPE, stderr=subprocess.STDOUT, text=True, **kw)


def worktree():
    d = tempfile.mkdtemp(prefix="mw-", dir="/tmp")
    os.rmdir(d)
    r = sh(f"git -C /repo worktree add -q --detach {d} HEAD")
    assert r.returncode == 0, r.stdout
    return d


def drop(d):
    sh(f"git -C /repo worktree remove --force {d}")
    shutil.rmtree(d, ignore_errors=True)


def meta_path(name):
    return os.path.join(SEEDED, name, "meta.json")


def load_meta(name):
    return json.load(open(meta_path(name)))


def save_meta(name, m):
    json.dump(m, open(meta_path(name), "w"), indent=1)


def adopt(src, prop, n, name):
    dst = os.path.join(SEEDED, name)
    os.makedirs(dst, exist_ok=True)
    shutil.copy(os.path.join(src, f"patch{n}.diff"), os.path.join(dst, "patch.diff"))
    shutil.copy(os.path.join(src, f"demo{n}.py"), os.path.join(dst, "demo.py"))
    notes = os.path.join(src, f"notes{n}.md")
    if os.path.exists(notes):
        shutil.copy(notes, os.path.join(dst, "notes.md"))
    save_meta(name, {"property": prop, "name": name, "origin": "independent sub-agent given only the property text",
                     "needs_to_manifest": "", "verified": None, "detected_by": {}})


def verify(name):
    d = worktree()
    m = load_meta(name)
    try:
        demo = os.path.join(SEEDED, name, "demo.py")
        patch = os.path.join(SEEDED, name, "patch.diff")
        env = dict(os.environ, PYTHONPATH=d)
        clean = subprocess.run([PY, demo], cwd=d, env=env, stdout=subprocess.PIPE, stderr=subprocess.STDOUT, text=True, timeout=600)
        ap = sh(f"git -C {d} apply {patch}")
        assert ap.returncode == 0, "patch does not apply: " + ap.stdout
        patched = subprocess.run([PY, demo], cwd=d, env=env, stdout=subprocess.PIPE, stderr=subprocess.STDOUT, text=True, timeout=600)
        t = sh(f"cd {d} && {PY} -m pytest -q -p no:cacheprovider -x 2>&1 | tail -3", timeout=3600)
        tests_ok = " passed" in t.stdout and "failed" not in t.stdout and "error" not in t.stdout.lower()
        m["verified"] = {"demo_exit_clean": clean.returncode, "demo_exit_patched": patched.returncode,
                         "tests_with_patch": t.stdout.strip().splitlines()[-1] if t.stdout.strip() else "",
                         "ok": clean.returncode == 0 and patched.returncode != 0 and tests_ok,
                         "ran": f"git worktree add; demo.py clean; git apply patch.diff; demo.py patched; pytest -q (full suite) patched; base commit {sh('git -C /repo rev-parse --short HEAD').stdout.strip()}"}
        save_meta(name, m)
        print(name, json.dumps(m["verified"]))
    finally:
        drop(d)


def detect(name, props):
    d = worktree()
    m = load_meta(name)
    try:
        patch = os.path.join(SEEDED, name, "patch.diff")
        ap = sh(f"git -C {d} apply {patch}")
        assert ap.returncode == 0, "patch does not apply: " + ap.stdout
        for p in props or [m["property"]]:
            t0 = time.time()
            evd = tempfile.mkdtemp(prefix="ev-", dir="/tmp")
            r = subprocess.run([os.path.join(VERIF, "check"), p, "--tier", os.environ.get("TIER", "quick")], cwd=VERIF,
                               env=dict(os.environ, VERIF_REPO=d, VERIF_EVIDENCE_DIR=evd),
                               stdout=subprocess.PIPE, stderr=subprocess.STDOUT, text=True)
            shutil.rmtree(evd, ignore_errors=True)
            viol = [ln for ln in r.stdout.splitlines() if ln.startswith("VIOLATION")]
            what = [ln.strip() for ln in r.stdout.splitlines() if ln.strip().startswith("what:")]
            m.setdefault("detected_by", {})[p] = {"exit": r.returncode, "violations": len(viol), "first": what[0][:300] if what else "",
                                                  "tier": os.environ.get("TIER", "quick"), "wall_s": round(time.time() - t0)}
            print(name, p, "exit", r.returncode, "violations", len(viol), (what[0][:200] if what else r.stdout[-300:] if r.returncode else ""))
        save_meta(name, m)
    finally:
        drop(d)


if __name__ == "__main__":
    cmd = sys.argv[1]
    if cmd == "adopt":
        adopt(sys.argv[2], sys.argv[3], sys.argv[4], sys.argv[5])
    elif cmd == "verify":
        verify(sys.argv[2])
    elif cmd == "detect":
        detect(sys.argv[2], sys.argv[3:])
