----------------------------- MODULE CodecJudge -----------------------------
(* Judges observations of the real parser with Codec.tla's declarative predicates.
   OBS_FILE: JSON array of [id |-> n, m |-> projected message the real parser returned].
   Prints <<"NONCONF", id>> for every message that is not Conformant (C13). *)
EXTENDS Codec, Sequences, Json, IOUtils
Obs == JsonDeserialize(IOEnv.OBS_FILE)
Fix(m) == m
Bad == { i \in 1..Len(Obs) : ~Conformant(Obs[i].m) }
ASSUME PrintT(<<"JUDGED", Len(Obs)>>)
ASSUME \A i \in Bad : PrintT(<<"NONCONF", Obs[i].id>>)
=============================================================================
