---------------------------- MODULE NumbersJudge ----------------------------
(* Judges real renderings with Numbers.tla's RenderOK / PrintfOK.
   OBS_FILE: JSON array of observations
     sexagesimal: [id, t |-> "m", f, neg, W, r10, x |-> [neg, whole, mm, ss, fr], bneg, bW, br10]
        x = tokenised fields of the text num_to_str produced; b* = limbs of str_to_num(text) (parse-back)
     printf:      [id, t |-> "p", prec, neg, W, f6, tneg, twhole, t6, bneg, bW, bf6]  *)
EXTENDS Numbers, Json, IOUtils
Obs == JsonDeserialize(IOEnv.OBS_FILE)
B(x) == x = 1
BackOKm(o) == IF B(o.neg) = B(o.bneg)
              THEN Abs(o.W - o.bW) <= 1 /\ Abs((o.bW - o.W) * UPW(o.f) * 10 + o.br10 - o.r10) <= 10
              ELSE o.W = 0 /\ o.bW = 0 /\ o.r10 + o.br10 <= 10
Good(o) == IF o.t = "m"
           THEN /\ RenderOK(B(o.neg), o.W, o.r10, [neg |-> B(o.x.neg), whole |-> o.x.whole, mm |-> o.x.mm, ss |-> o.x.ss, fr |-> o.x.fr], o.f)
                /\ BackOKm(o)
           ELSE /\ PrintfOK(B(o.neg), o.W, o.f6, B(o.tneg), o.twhole, o.t6, o.prec)
                /\ PrintfOK(B(o.neg), o.W, o.f6, B(o.bneg), o.bW, o.bf6, o.prec)
BadIds == { i \in 1..Len(Obs) : ~Good(Obs[i]) }
ASSUME PrintT(<<"JUDGED", Len(Obs)>>)
ASSUME \A i \in BadIds : PrintT(<<"BADNUM", Obs[i].id>>)
=============================================================================
