SPECIFICATION CasesSpec
CONSTANTS
  Kinds = {"defSwitchVector"}
  MaxCh = 2
  Variants = 2
INVARIANT ValidInv
INVARIANT RoundTripInv
INVARIANT IdempotentInv
INVARIANT ExpectNormInv
INVARIANT ConformantInv
INVARIANT C13RejectsInv
INVARIANT C13ValidInv
INVARIANT EqIffSameInv
