---------------------------- MODULE MC_Transport ----------------------------
(* Bounded instance of Transport.tla: every interleaving of accepts, inputs, device messages, loop
   iterations and completions / failures of the outstanding awaitables. *)
EXTENDS Transport
CONSTANTS Kinds,        \* Conns -> set of kinds a connection may be accepted as
          MaxMsgs, MaxFeeds, MaxAccepts,
          Items,        \* input items the peers may send
          Stalled       \* connections whose awaitables never complete (for Isolation)
KindsQuick == [c \in Conns |-> IF c = "a" THEN {"tcp", "tty"} ELSE {"tcp", "cli"}]
KindsLive == [c \in Conns |-> IF c = "a" THEN {"tcp", "tty"} ELSE {"tcp", "tty", "cli"}]
KindsSim == [c \in Conns |-> IF c = "c" THEN {"tcp", "tty", "cli"} ELSE {"tcp", "tty"}]
KindsTty == [c \in Conns |-> {"tty"}]
VARIABLES feeds, accepts, nmsg,
          act      \* the environment action just taken (so that simulated behaviours can be replayed on the real handlers)
mcvars == <<S, feeds, accepts, nmsg, act>>
MCInit == Init /\ feeds = 0 /\ accepts = 0 /\ nmsg = 0 /\ act = [op |-> "init"]
MCNext ==
  \/ \E c \in Conns : \E k \in Kinds[c] : accepts < MaxAccepts /\ Accept(c, k) /\ accepts' = accepts + 1 /\ UNCHANGED <<feeds, nmsg>>
                                             /\ act' = [op |-> "accept", c |-> c, k |-> k]
  \/ \E c \in Conns, it \in Items \ {"get"} : feeds < MaxFeeds /\ Feed(c, <<it, 0>>) /\ feeds' = feeds + 1 /\ UNCHANGED <<accepts, nmsg>>
                                              /\ act' = [op |-> "feed", c |-> c, it |-> it, id |-> 0]
  \/ \E c \in Conns : "get" \in Items /\ feeds < MaxFeeds /\ nmsg < MaxMsgs /\ Feed(c, <<"get", nmsg + 1>>)
                        /\ feeds' = feeds + 1 /\ nmsg' = nmsg + 1 /\ UNCHANGED accepts
                        /\ act' = [op |-> "feed", c |-> c, it |-> "get", id |-> nmsg + 1]
  \/ nmsg < MaxMsgs /\ DeviceSend(nmsg + 1) /\ OthersServed(nmsg + 1) /\ nmsg' = nmsg + 1 /\ UNCHANGED <<feeds, accepts>>
                    /\ act' = [op |-> "dsend", id |-> nmsg + 1]
  \/ \E c \in Conns : nmsg < MaxMsgs /\ ClientSend(c, nmsg + 1) /\ nmsg' = nmsg + 1 /\ UNCHANGED <<feeds, accepts>>
                        /\ act' = [op |-> "csend", c |-> c, id |-> nmsg + 1]
  \/ \E c \in Conns \ Stalled : \E i \in DOMAIN S.pend[c] : \E f \in BOOLEAN : Complete(c, i, f) /\ UNCHANGED <<feeds, accepts, nmsg>>
                        /\ act' = [op |-> "complete", c |-> c, i |-> i, fail |-> f]
  \/ Tick /\ UNCHANGED <<feeds, accepts, nmsg>> /\ act' = [op |-> "tick"]
MCSpec == MCInit /\ [][MCNext]_mcvars
\* "get" relays also consume message ids: bound them through the feed budget
P_NoDeliveryAfterEnd == [][NoDeliveryAfterEnd]_mcvars
(* C19 Isolation, liveness form: with one connection stalled for ever, every other connection still
   gets everything routed to it written out (fair loop, fair completions, no failures injected on them) *)
Progress ==
  \/ Tick
  \/ \E c \in Conns \ Stalled : \E i \in DOMAIN S.pend[c] : Complete(c, i, FALSE)
LiveSpec == MCInit /\ [][MCNext]_mcvars /\ WF_<<S, feeds, accepts, nmsg>>(Progress /\ UNCHANGED <<feeds, accepts, nmsg>>)
MCView == <<S, feeds, accepts, nmsg>>
Isolation == \A c \in Conns \ Stalled : <>[](NoFailYet(c) => S.wire[c] = S.routed[c])
(* probes *)
ProbeInv_LockWaiter == \A c \in Conns : Len(S.waiters[c]) < 1
ProbeInv_ClosedWithPending == \A c \in Conns : ~(S.rst[c] = "done" /\ S.pend[c] # <<>>)
ProbeInv_Reconnect == ~(\E c, d \in Conns : c # d /\ S.rst[c] = "done" /\ S.rst[d] = "waiting" /\ S.pol[d] = "unset" /\ <<c, "enable">> \in Range(S.devlog))
=============================================================================
