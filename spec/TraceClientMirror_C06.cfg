SPECIFICATION TraceSpec
CONSTANTS
  Which = "C06"
CONSTRAINT Progress
POSTCONDITION Accepted
CHECK_DEADLOCK FALSE
