SPECIFICATION MCSpec
CONSTANTS
  AsIsLoopExit = FALSE
  MaxSegs = 3
  MaxCuts = 1
  Thresholds <- ThrQuick
  CatLimit = 10
INVARIANT Bounded
INVARIANT OnlyMessages
INVARIANT Retained
INVARIANT InOrder
INVARIANT AtMostOnce
INVARIANT LosslessOrderedPrompt
INVARIANT Recovers
INVARIANT Contract
