SPECIFICATION TraceSpec
CONSTANTS
  Which = "C16"
CONSTRAINT Progress
POSTCONDITION Accepted
CHECK_DEADLOCK FALSE
