SPECIFICATION MCSpec
CONSTANTS
  ClientIds = {"c1", "c2"}
  DevIds = {"d1", "d2", "d3"}
  Names = {"A", "B"}
  NoName = "none"
  NoSender = "nobody"
  AsIs = TRUE
  AcceptInit <- AcceptQuick
VIEW View
PROPERTY P_FanOut
