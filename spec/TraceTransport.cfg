SPECIFICATION TraceSpec
CONSTANTS
  Conns = {"a", "b", "c"}
  AsIsTtyNoLock = FALSE
CONSTRAINT Progress
POSTCONDITION Accepted
CHECK_DEADLOCK FALSE
