---------------------------- MODULE TraceRouter ----------------------------
(* Batch trace validation for Router.tla.  TRACE_FILE holds a JSON array of traces
     { "accept": {devId: name | "*"}, "ev": [ event, ... ] }
   event = { "op": "regdev"|"regcli"|"unreg"|"msg", args..., observations after the step:
             "devs": [..], "clients": [..], "pol": [[c, n, v], ..], "dlv": [["dev"|"cli", id], ..],
             "subs": [ {s, k, n, dlv}, .. ]  (messages sent by endpoints from inside their callbacks while this one was in flight) }
   Each event must be explained by the Router action of that name with the logged arguments, the
   projected post-state must equal the primed variables, and every declarative property of
   Router.tla must hold on the step. *)
EXTENDS Router, Json, IOUtils

CONSTANT Which
VARIABLES tid, l

Traces == JsonDeserialize(IOEnv.TRACE_FILE)
N  == Len(Traces)
Tr == Traces[tid]
Ev == Tr.ev[l]

ASSUME \A t \in 1..N : TLCSet(t, 0)

TraceInit == /\ tid \in 1..N /\ l = 1 /\ InitWith(Tr.accept)

PolTriples(p) == {<<c, n, p[c][n]>> : c \in DOMAIN p, n \in Names}
BagEq(a, b)  == \A x \in Range(a) \cup Range(b) : Count(a, x) = Count(b, x)

DevPart(q) == SelectSeq(q, LAMBDA x : x[1] = "dev")
CliPart(q) == SelectSeq(q, LAMBDA x : x[1] = "cli")

\* C04 observes the device side (and that device-bound kinds leak to no client),
\* C05 the client side and the policy table.
ObsOK == IF Which = "C04"
         THEN /\ devs' = Ev.devs
              /\ BagEq(DevPart(dlv'), DevPart(Ev.dlv))
              /\ (Ev.op = "msg" /\ FromClient(Ev.k) /\ Ev.k # "getProperties" => CliPart(Ev.dlv) = <<>>)
         ELSE /\ clients' = Ev.clients
              /\ PolTriples(policy') = Range(Ev.pol)
              /\ BagEq(CliPart(dlv'), CliPart(Ev.dlv))
\* Re-entrancy: an endpoint may call the router from inside its own callback (a driver answers from message_from_client, a
\* snooping client sends from message_from_device).  Every such nested message (Ev.subs: sender, kind, name, its own deliveries)
\* must be routed exactly like a message processed on its own in this state, and must not disturb the one in flight.
HasSubs == Ev.op = "msg" /\ "subs" \in DOMAIN Ev
SubsOK == HasSubs =>
  \A i \in DOMAIN Ev.subs : LET sb == Ev.subs[i] IN
     IF Which = "C04"
     THEN /\ BagEq([j \in DOMAIN ToDevOf(devs', sb.s, sb.k, sb.n) |-> <<"dev", ToDevOf(devs', sb.s, sb.k, sb.n)[j]>>], DevPart(sb.dlv))
          /\ (FromClient(sb.k) /\ sb.k # "getProperties" => CliPart(sb.dlv) = <<>>)
     ELSE BagEq([j \in DOMAIN ToCliOf(clients', policy', sb.s, sb.k, sb.n) |-> <<"cli", ToCliOf(clients', policy', sb.s, sb.k, sb.n)[j]>>], CliPart(sb.dlv))
PropsOK == IF Which = "C04" THEN ToDevices /\ NoLeak /\ MsgKeepsRegistry
           ELSE FanOut /\ Independence /\ EnableTakesEffect /\ Forgotten /\ Fresh /\ MsgKeepsRegistry

Step == /\ l <= Len(Tr.ev)
        /\ l' = l + 1 /\ UNCHANGED tid
        /\ \/ Ev.op = "regdev" /\ RegisterDevice(Ev.d)
           \/ Ev.op = "regcli" /\ RegisterClient(Ev.c)
           \/ Ev.op = "unreg"  /\ UnregisterClient(Ev.c)
           \/ Ev.op = "msg"    /\ ProcessMessage(Ev.s, Ev.k, Ev.n, Ev.v)
        /\ Ev.raised = ""          \* nothing may be raised out of the router
        /\ ObsOK
        /\ PropsOK
        /\ SubsOK

TraceSpec == TraceInit /\ [][Step]_<<vars, tid, l>>

Progress == TLCSet(tid, IF TLCGet(tid) > l THEN TLCGet(tid) ELSE l)
Bad == {t \in 1..N : TLCGet(t) # Len(Traces[t].ev) + 1}
Accepted == /\ PrintT(<<"BATCH", N>>)
            /\ \A t \in Bad : PrintT(<<"REJECT", t, TLCGet(t)>>)
            /\ Bad = {}
=============================================================================
