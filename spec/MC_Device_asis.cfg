SPECIFICATION GenSpec
CONSTANTS
  NoRefresh = "norefresh"
  AsIsNoContain = TRUE
  MaxN = 0
  MaxDepth = 2
CONSTRAINT Depth
PROPERTY P_Robust
