SPECIFICATION TraceSpec
CONSTANTS
  Which = "C08"
  AllowOversize = TRUE
CONSTRAINT Progress
POSTCONDITION Accepted
CHECK_DEADLOCK FALSE
