---------------------------- MODULE ClientMirror ----------------------------
(* indi/client: BaseClient.process_message, Device, Vector, Element, events and callbacks (C15, C16).

   Abstract message  [t : "def"|"set"|"del"|"other", dev, vec (None for a whole-device deletion), kind, st,
                      els : Seq(<<name, value>>)]
   Mirror state C:
     devs   known device names (a device stays known when its last property is deleted by name)
     vecs   sequence of [dev, name, kind, st, els : Seq(<<name, value>>)]
     cbs    registered callbacks [id, dev, vec, el (None = any), ty : "Base"|"Def"|"Value"|"State", coro, raises], in order
     tasks  pending coroutine callback invocations <<callback id, event>>
     evs    events raised while processing the current message, in order:
            [ty : "Value"|"State"|"Def", dev, vec, el (None for vector events), old, new]
     calls  callback invocations of the current step, in order: <<callback id, event, late>>
     sent   messages handed to the connection in the current step (client writes): [dev, vec, kind, els : Seq(<<name, value>>)]
   Each property additionally carries  pend : one pending (assigned, not yet submitted) value per element, None = nothing pending.

   Recv is the reference interpreter of C15 (what an INDI client must do with a property stream); the declarative
   statements of C16 (ChainOK, CallsExact) are formulated on the events alone. *)
EXTENDS Integers, Sequences, FiniteSets, TLC

None == "none"
Range(s) == {s[i] : i \in DOMAIN s}

C0 == [devs |-> <<>>, vecs |-> <<>>, cbs |-> <<>>, tasks |-> <<>>, evs |-> <<>>, calls |-> <<>>, sent |-> <<>>]

FindVec(C, dev, name) == IF \E i \in DOMAIN C.vecs : C.vecs[i].dev = dev /\ C.vecs[i].name = name
                         THEN CHOOSE i \in DOMAIN C.vecs : C.vecs[i].dev = dev /\ C.vecs[i].name = name ELSE 0
Ev(ty, dev, vec, el, old, new) == [ty |-> ty, dev |-> dev, vec |-> vec, el |-> el, old |-> old, new |-> new]

(* _CallbackConfig.accepts_event *)
TypeMatches(cbty, evty) == cbty = "Base" \/ cbty = evty
Accepts(cb, e) == /\ cb.dev \in {None, e.dev} /\ cb.vec \in {None, e.vec} /\ cb.el \in {None, e.el}
                  /\ TypeMatches(cb.ty, e.ty)

(* trigger_event: every registered callback that accepts the event, in registration order; plain ones are called now
   (an exception is contained), coroutine ones become tasks *)
RECURSIVE Dispatch(_, _, _)
Dispatch(C, e, i) ==
  IF i > Len(C.cbs) THEN C
  ELSE LET cb == C.cbs[i] IN
       IF ~Accepts(cb, e) THEN Dispatch(C, e, i + 1)
       ELSE IF cb.coro THEN Dispatch([C EXCEPT !.tasks = Append(@, <<cb.id, e>>)], e, i + 1)
       ELSE \* a plain callback may itself remove a LATER-registered callback (cb.rm = its id, 0 = none): that one is not invoked any more
            Dispatch([C EXCEPT !.calls = Append(@, <<cb.id, e, FALSE>>),
                               !.cbs = IF cb.rm = 0 THEN @ ELSE SelectSeq(@, LAMBDA x : x.id # cb.rm)], e, i + 1)
Raise(C, e) == Dispatch([C EXCEPT !.evs = Append(@, e)], e, 1)

Fresh(C) == [C EXCEPT !.evs = <<>>, !.calls = <<>>, !.sent = <<>>]

(* a definition creates or replaces the property: value events for the elements that carry a value, then the state
   event, then the definition event *)
RECURSIVE DefEvents(_, _, _)
DefEvents(C, m, i) ==
  IF i > Len(m.els) THEN C
  ELSE DefEvents(IF m.els[i][2] # None THEN Raise(C, Ev("Value", m.dev, m.vec, m.els[i][1], None, m.els[i][2])) ELSE C, m, i + 1)
RecvDef(C, m) ==
  LET C1 == IF m.dev \in Range(C.devs) THEN C ELSE [C EXCEPT !.devs = Append(@, m.dev)]
      C2 == DefEvents(C1, m, 1)
      C3 == Raise(C2, Ev("State", m.dev, m.vec, None, None, m.st))
      rec == [dev |-> m.dev, name |-> m.vec, kind |-> m.kind, st |-> m.st, els |-> m.els, pend |-> [j \in DOMAIN m.els |-> None]]
      k == FindVec(C3, m.dev, m.vec)
      C4 == IF k = 0 THEN [C3 EXCEPT !.vecs = Append(@, rec)] ELSE [C3 EXCEPT !.vecs[k] = rec]
  IN Raise(C4, Ev("Def", m.dev, m.vec, None, None, None))

(* an update changes only the state and the elements it lists; BLOB elements store a new payload on every update *)
ElIndex(els, name) == IF \E j \in DOMAIN els : els[j][1] = name THEN CHOOSE j \in DOMAIN els : els[j][1] = name ELSE 0
RECURSIVE SetEls(_, _, _, _)
SetEls(C, k, m, i) ==
  IF i > Len(m.els) THEN C
  ELSE LET j == ElIndex(C.vecs[k].els, m.els[i][1]) IN
       IF j = 0 THEN SetEls(C, k, m, i + 1)
       ELSE LET old == C.vecs[k].els[j][2]
                new == m.els[i][2]
                C1 == [C EXCEPT !.vecs[k].els[j] = <<m.els[i][1], new>>]
            IN SetEls(IF m.kind = "blob" \/ old # new THEN Raise(C1, Ev("Value", m.dev, m.vec, m.els[i][1], old, new)) ELSE C1, k, m, i + 1)
RecvSet(C, m) ==
  LET k == FindVec(C, m.dev, m.vec) IN
  IF k = 0 \/ C.vecs[k].kind # m.kind THEN C
  ELSE LET old == C.vecs[k].st
           C1 == [C EXCEPT !.vecs[k].st = m.st]
           C2 == IF old # m.st THEN Raise(C1, Ev("State", m.dev, m.vec, None, old, m.st)) ELSE C1
       IN SetEls(C2, k, m, 1)

(* a deletion removes the named property or, without a name, the whole device *)
RecvDel(C, m) ==
  IF m.vec = None
  THEN [C EXCEPT !.devs = SelectSeq(@, LAMBDA d : d # m.dev), !.vecs = SelectSeq(@, LAMBDA v : v.dev # m.dev)]
  ELSE [C EXCEPT !.vecs = SelectSeq(@, LAMBDA v : ~(v.dev = m.dev /\ v.name = m.vec))]

Recv(C, m) == CASE m.t = "def" -> RecvDef(Fresh(C), m)
                [] m.t = "set" -> RecvSet(Fresh(C), m)
                [] m.t = "del" -> RecvDel(Fresh(C), m)
                [] OTHER -> Fresh(C)

(* client writes (C06): Element.value = x records a pending value (the mirrored value is untouched until the server answers);
   Vector.submit sends ONE new*Vector listing exactly the pending elements, in the property's element order, and clears them.
   Updates from the server leave pending values alone; a redefinition creates new elements, without pending values. *)
Edit(C, dev, vec, el, x) ==
  LET k == FindVec(C, dev, vec) IN
  IF k = 0 THEN Fresh(C)
  ELSE LET j == ElIndex(C.vecs[k].els, el) IN
       IF j = 0 THEN Fresh(C) ELSE [Fresh(C) EXCEPT !.vecs[k].pend[j] = x]
Submit(C, dev, vec) ==
  LET k == FindVec(C, dev, vec) IN
  IF k = 0 THEN Fresh(C)
  ELSE LET v == C.vecs[k]
           idx == SelectSeq([j \in DOMAIN v.els |-> j], LAMBDA j : v.pend[j] # None)
       IN [Fresh(C) EXCEPT !.sent = << [dev |-> dev, vec |-> vec, kind |-> v.kind,
                                        els |-> [i \in DOMAIN idx |-> <<v.els[idx[i]][1], v.pend[idx[i]]>>]] >>,
                           !.vecs[k].pend = [j \in DOMAIN v.els |-> None]]

OnEvent(C, cb) == [Fresh(C) EXCEPT !.cbs = Append(@, cb)]
RmById(C, id) == [Fresh(C) EXCEPT !.cbs = SelectSeq(@, LAMBDA cb : cb.id # id)]
\* rmonevent by criteria: None is a wildcard, a given criterion must equal the registered one
RmByCriteria(C, dev, vec, el, ty) ==
  [Fresh(C) EXCEPT !.cbs = SelectSeq(@, LAMBDA cb : ~(/\ dev \in {None, cb.dev} /\ vec \in {None, cb.vec}
                                                       /\ el \in {None, cb.el} /\ ty \in {None, cb.ty}))]
\* a later loop iteration runs the pending coroutine callbacks
RunTasks(C) == [Fresh(C) EXCEPT !.calls = [i \in DOMAIN C.tasks |-> <<C.tasks[i][1], C.tasks[i][2], TRUE>>], !.tasks = <<>>]

-----------------------------------------------------------------------------
(* C16, stated on the events of one step, the callbacks registered before it and a history `last` that records, per
   element / per vector, the new value of its latest event (None at the start of an incarnation). *)
Key(e) == <<e.dev, e.vec, e.el>>
\* events of one step in order: each value / state event continues the chain of its element / vector
RECURSIVE ChainStep(_, _, _)
ChainStep(last, evs, i) ==       \* returns <<ok, last'>>
  IF i > Len(evs) THEN <<TRUE, last>>
  ELSE LET e == evs[i] IN
       IF e.ty = "Def" THEN ChainStep(last, evs, i + 1)
       ELSE LET prev == IF Key(e) \in DOMAIN last THEN last[Key(e)] ELSE None
                nl == [k \in DOMAIN last \cup {Key(e)} |-> IF k = Key(e) THEN e.new ELSE last[k]]
            IN IF e.old = prev THEN ChainStep(nl, evs, i + 1) ELSE <<FALSE, last>>
\* a definition starts a new incarnation of the property and of its elements: their chains restart at "absent"
ResetVec(last, dev, vec) == [k \in DOMAIN last |-> IF k[1] = dev /\ k[2] = vec THEN None ELSE last[k]]
LastAt(last, k) == IF k \in DOMAIN last THEN last[k] ELSE None
\* the last event's new value is the current value: an application that only listens to events holds no stale value
LastIsCurrent(C, last) ==
  \A i \in DOMAIN C.vecs : LET v == C.vecs[i] IN
     /\ LastAt(last, <<v.dev, v.name, None>>) = v.st
     /\ \A j \in DOMAIN v.els : LastAt(last, <<v.dev, v.name, v.els[j][1]>>) = v.els[j][2]
\* an event is raised only if something changed (BLOB updates always store a new payload)
NoIdleEvents(C, evs) == \A i \in DOMAIN evs : evs[i].ty \in {"Value", "State"} =>
                           (evs[i].old # evs[i].new \/ \E k \in DOMAIN C.vecs : C.vecs[k].dev = evs[i].dev /\ C.vecs[k].name = evs[i].vec /\ C.vecs[k].kind = "blob")
\* every registered callback is invoked exactly for the events that match its filter, in event order then registration order
ExpectedCalls(cbs, evs) ==
  LET RECURSIVE PerEv(_, _)
      PerEv(i, acc) == IF i > Len(evs) THEN acc
                       ELSE PerEv(i + 1, acc \o [j \in DOMAIN SelectSeq(cbs, LAMBDA cb : Accepts(cb, evs[i]) /\ ~cb.coro) |->
                                                   <<SelectSeq(cbs, LAMBDA cb : Accepts(cb, evs[i]) /\ ~cb.coro)[j].id, evs[i], FALSE>>])
  IN PerEv(1, <<>>)
ExpectedTasks(cbs, evs) ==
  LET RECURSIVE PerEv(_, _)
      PerEv(i, acc) == IF i > Len(evs) THEN acc
                       ELSE PerEv(i + 1, acc \o [j \in DOMAIN SelectSeq(cbs, LAMBDA cb : Accepts(cb, evs[i]) /\ cb.coro) |->
                                                   <<SelectSeq(cbs, LAMBDA cb : Accepts(cb, evs[i]) /\ cb.coro)[j].id, evs[i]>>])
  IN PerEv(1, <<>>)
CallsExact(P, Q) == Q.calls = ExpectedCalls(P.cbs, Q.evs) /\ Q.tasks = P.tasks \o ExpectedTasks(P.cbs, Q.evs)
=============================================================================
