SPECIFICATION MCSpec
CONSTANTS
  Horizon = 8
  MaxArr = 3
  AsIsLastWins = TRUE
INVARIANT Outcome
