SPECIFICATION TraceSpec
CONSTRAINT Progress
POSTCONDITION Accepted
CHECK_DEADLOCK FALSE
