------------------------------- MODULE Framing -------------------------------
(* Contract-level statement of C02 / C11 / C08 for the receive buffer, independent of the algorithm.

   A stream has a LAYOUT: the sequence of its valid messages, each [id, first, last] (positions in the
   character stream, ids 1, 2, ... in stream order), a flag `clean` (no junk in it imitates a protocol
   element: every occurrence of "<" + a known message tag lies inside one of the valid messages) and the
   junk-recovery threshold thr (Disabled = -1).

   The observable history of a buffer is: characters appended so far (fed), the ids of the messages
   delivered so far in delivery order (0 = a delivered message that is none of the stream's valid
   messages) and the number of characters retained after the last process() call.

   The same operators are used as invariants of the character-level model (MC_BufferAlgo) and as the step
   predicate of the trace specification for real-world text (TraceFraming). *)
EXTENDS Integers, Sequences, FiniteSets

FDisabled == -1
MsgLen(m) == m.last - m.first + 1
Fits(msgs, thr) == thr = FDisabled \/ \A j \in DOMAIN msgs : MsgLen(msgs[j]) <= thr
Ids(seq) == {seq[i] : i \in DOMAIN seq}

(* C02 (+ C11 "junk that does not imitate ... never prevents or delays"): after the process() call that follows
   arrival of its last character every message has been delivered; exactly the sent messages, once, in order *)
CleanContract(msgs, fed, delivered) ==
  delivered = [i \in 1..Cardinality({j \in DOMAIN msgs : msgs[j].last <= fed}) |-> msgs[i].id]

(* whatever the input: the stream's own messages come out at most once and in stream order *)
OrderContract(delivered) ==
  \A i \in DOMAIN delivered : \A j \in DOMAIN delivered :
     (i < j /\ delivered[i] # 0 /\ delivered[j] # 0) => delivered[i] < delivered[j]

(* C11: bounded retention when the threshold is enabled *)
RetainContract(thr, dlen) == thr = FDisabled \/ dlen <= thr

(* C11: after a truncated / corrupt element every later valid message (no longer than the threshold) is delivered
   once enough further data has arrived: thr + 1 characters beyond its end certainly is enough *)
RecoverContract(msgs, thr, fed, delivered) ==
  thr = FDisabled \/
  \A j \in DOMAIN msgs : (MsgLen(msgs[j]) <= thr /\ fed >= msgs[j].last + thr + 1) => msgs[j].id \in Ids(delivered)

FramingContract(msgs, clean, thr, fed, delivered, dlen) ==
  /\ OrderContract(delivered)
  /\ RetainContract(thr, dlen)
  /\ RecoverContract(msgs, thr, fed, delivered)
  /\ (clean /\ Fits(msgs, thr)) => CleanContract(msgs, fed, delivered)
=============================================================================
