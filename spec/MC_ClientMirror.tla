-------------------------- MODULE MC_ClientMirror --------------------------
EXTENDS ClientMirror
CONSTANTS MaxDepth
VARIABLES C, last, op
mcvars == <<C, last, op>>
Devs == {"A", "B"}
VecNames == {"V", "W"}
Msgs ==
  { [t |-> "def", dev |-> d, vec |-> v, kind |-> k, st |-> st, els |-> els] :
      d \in Devs, v \in VecNames, k \in {"text", "blob"}, st \in {"Ok", "Busy"},
      els \in { <<<<"x", "a">>>>, <<<<"x", "a">>, <<"y", None>>>>, <<<<"y", "b">>>> } }
  \cup { [t |-> "set", dev |-> d, vec |-> v, kind |-> k, st |-> st, els |-> els] :
      d \in Devs \cup {"U"}, v \in VecNames, k \in {"text", "blob"}, st \in {"Ok", "Busy"},
      els \in { <<>>, <<<<"x", "a">>>>, <<<<"x", "b">>, <<"z", "q">>>>, <<<<"y", "b">>, <<"x", "b">>>> } }
  \cup { [t |-> "del", dev |-> d, vec |-> v, kind |-> None, st |-> None, els |-> <<>>] : d \in Devs \cup {"U"}, v \in VecNames \cup {None} }
  \cup { [t |-> "other", dev |-> "A", vec |-> None, kind |-> None, st |-> None, els |-> <<>>] }
Cbs == { [id |-> i, dev |-> d, vec |-> v, el |-> e, ty |-> ty, coro |-> co, raises |-> FALSE, rm |-> rm] :
           i \in {1, 2}, d \in {None, "A"}, v \in {None, "V"}, e \in {None, "x"}, ty \in {"Base", "Value", "State", "Def"}, co \in BOOLEAN, rm \in {0, 2} }
MCInit == C = C0 /\ last = <<>> /\ op = [o |-> "init"]
MCNext ==
  \/ \E m \in Msgs : C' = Recv(C, m) /\ op' = [o |-> "recv", m |-> m]
  \/ \E cb \in Cbs : cb.id \notin {C.cbs[i].id : i \in DOMAIN C.cbs} /\ (cb.rm # 0 => cb.id = 1 /\ ~cb.coro /\ C.cbs = <<>>)
                      /\ C' = OnEvent(C, cb) /\ op' = [o |-> "on"]
  \/ \E id \in {1, 2} : C' = RmById(C, id) /\ op' = [o |-> "rm"]
  \/ \E d \in {None, "A"}, ty \in {None, "Value"} : C' = RmByCriteria(C, d, None, None, ty) /\ op' = [o |-> "rm"]
  \/ C.tasks # <<>> /\ C' = RunTasks(C) /\ op' = [o |-> "tick"]
Hist == LET base == IF op'.o = "recv" /\ op'.m.t = "def" THEN ResetVec(last, op'.m.dev, op'.m.vec) ELSE last
        IN ChainStep(base, C'.evs, 1)
MCSpec == MCInit /\ [][MCNext /\ last' = Hist[2]]_mcvars
Depth == TLCGet("level") <= MaxDepth
P_Chain == [][Hist[1] /\ LastIsCurrent(C', Hist[2]) /\ NoIdleEvents(C', C'.evs)]_mcvars
NoRm == \A i \in DOMAIN C.cbs : C.cbs[i].rm = 0
P_Calls == [][op'.o = "recv" /\ NoRm => CallsExact(C, C')]_mcvars
P_RemovedNeverCalled == [][\A i \in DOMAIN C'.calls : ~C'.calls[i][3] => C'.calls[i][1] \in {C.cbs[j].id : j \in DOMAIN C.cbs}]_mcvars
Probe_Redefine == [][~(op'.o = "recv" /\ op'.m.t = "def" /\ FindVec(C, op'.m.dev, op'.m.vec) # 0 /\ C'.calls # <<>>)]_mcvars
Probe_DeviceDeleted == [][~(op'.o = "recv" /\ op'.m.t = "del" /\ op'.m.vec = None /\ Len(C'.vecs) < Len(C.vecs))]_mcvars
Probe_PartialUpdate == [][~(op'.o = "recv" /\ op'.m.t = "set" /\ Len(C'.evs) = 1 /\ Len(op'.m.els) = 2)]_mcvars
=============================================================================
