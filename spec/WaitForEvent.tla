---------------------------- MODULE WaitForEvent ----------------------------
(* BaseClient.waitforevent (indi/client/client.py) on a discrete virtual clock.

   Time unit = half a grid step: timers (timeout, polling delay / interval) fall on EVEN instants, event
   arrivals on ODD instants, so an arrival never ties with a timer (the statement excludes such ties); the
   timeout and a polling tick may coincide, and then either order is allowed.

   sched     the arrival schedule: a sequence of [t |-> odd instant, m |-> matches the wait's condition],
             sorted by instant; arrivals sharing an instant are processed in one loop iteration (one read),
             i.e. before the waiting coroutine resumes
   timeout   NoT or an even instant;  poll = <<delay, interval>> (even, > 0) or <<NoT, NoT>>
   The wait starts at instant 0.

   asyncio semantics that matter: the callback runs synchronously inside message processing and may set the
   lock; the waiter resumes only in a LATER loop iteration, after everything that arrived at the same
   instant was processed; timers fire in time order.

   AsIsLastWins = TRUE: the callback of the unrepaired code overwrites the result on every match (D13). *)
EXTENDS Integers, Sequences, FiniteSets, TLC

CONSTANTS Horizon, AsIsLastWins
NoT == -1

VARIABLES now, sched, timeout, to0 (* the timeout the wait was started with *), poll,
          tick,        \* arrivals processed so far
          lockSet, resEvent (* index of the recorded arrival, 0 = none *), resTimeout,
          waiter,      \* "waiting" | "ready" (lock set, resumes in the next iteration) | "returned" | "raised"
          doneAt,      \* instant at which the wait completed (NoT while pending)
          registered,  \* the wait's callback is registered with the client
          polls,       \* instants at which getProperties was re-requested
          nextPoll     \* next instant the poller wakes (NoT = poller finished or polling off)
vars == <<now, sched, timeout, to0, poll, tick, lockSet, resEvent, resTimeout, waiter, doneAt, registered, polls, nextPoll>>

Pending == tick < Len(sched)
NextArr == sched[tick + 1]
NoEarlierArrival(t) == IF Pending THEN NextArr.t > t ELSE TRUE
TimerDue(t) == t # NoT /\ t <= Horizon

InitWith(s, to, p) ==
  /\ now = 0 /\ sched = s /\ timeout = to /\ to0 = to /\ poll = p /\ tick = 0
  /\ lockSet = FALSE /\ resEvent = 0 /\ resTimeout = FALSE /\ waiter = "waiting" /\ doneAt = NoT
  /\ registered = TRUE /\ polls = {} /\ nextPoll = p[1]

(* once the lock is set the waiter resumes before virtual time moves on: only things of the same instant may still happen *)
MustWake == waiter = "waiting" /\ lockSet
(* an arrival is processed at its instant, when no timer is due earlier and the waiter is not about to resume *)
Arrive ==
  /\ Pending /\ waiter # "ready" /\ NextArr.t <= Horizon /\ (MustWake => NextArr.t = now)
  /\ (timeout = NoT \/ timeout > NextArr.t) /\ (nextPoll = NoT \/ nextPoll > NextArr.t)
  /\ now' = NextArr.t /\ tick' = tick + 1
  /\ IF registered /\ NextArr.m /\ (AsIsLastWins \/ ~lockSet)
     THEN resEvent' = tick + 1 /\ lockSet' = TRUE
     ELSE UNCHANGED <<resEvent, lockSet>>
  /\ UNCHANGED <<sched, timeout, to0, poll, resTimeout, waiter, doneAt, registered, polls, nextPoll>>

SameInstantPending == IF Pending THEN NextArr.t = now ELSE FALSE
(* the lock is set: the waiter becomes runnable once everything of this instant has been processed *)
WaiterWake ==
  /\ waiter = "waiting" /\ lockSet /\ ~SameInstantPending
  /\ waiter' = "ready"
  /\ UNCHANGED <<now, sched, timeout, to0, poll, tick, lockSet, resEvent, resTimeout, doneAt, registered, polls, nextPoll>>
(* next loop iteration: unregister the callback, return the event or raise the timeout *)
WaiterResume ==
  /\ waiter = "ready"
  /\ registered' = FALSE /\ doneAt' = now
  /\ waiter' = IF resTimeout THEN "raised" ELSE "returned"
  /\ UNCHANGED <<now, sched, timeout, to0, poll, tick, lockSet, resEvent, resTimeout, polls, nextPoll>>

TimeoutFire ==
  /\ TimerDue(timeout) /\ NoEarlierArrival(timeout) /\ waiter # "ready" /\ (MustWake => timeout = now)
  /\ (nextPoll = NoT \/ nextPoll >= timeout)            \* a polling tick at the same instant may come first or second
  /\ now' = timeout /\ timeout' = NoT
  /\ IF ~lockSet THEN resTimeout' = TRUE /\ lockSet' = TRUE ELSE UNCHANGED <<resTimeout, lockSet>>
  /\ UNCHANGED <<sched, to0, poll, tick, resEvent, waiter, doneAt, registered, polls, nextPoll>>

PollFire ==
  /\ TimerDue(nextPoll) /\ NoEarlierArrival(nextPoll) /\ waiter # "ready" /\ (MustWake => nextPoll = now)
  /\ (timeout = NoT \/ timeout >= nextPoll)
  /\ now' = nextPoll
  /\ IF ~lockSet THEN polls' = polls \cup {nextPoll} /\ nextPoll' = nextPoll + poll[2]
                 ELSE nextPoll' = NoT /\ UNCHANGED polls
  /\ UNCHANGED <<sched, timeout, to0, poll, tick, lockSet, resEvent, resTimeout, waiter, doneAt, registered>>

Next == Arrive \/ WaiterWake \/ WaiterResume \/ TimeoutFire \/ PollFire
Quiet == ~ENABLED Next            \* nothing more happens up to the horizon

-----------------------------------------------------------------------------
(* Declarative statements of C17, in terms of the schedule alone *)
MatchIdx == { i \in 1..Len(sched) : sched[i].m /\ sched[i].t <= Horizon }
FirstMatchIdx == IF MatchIdx = {} THEN 0 ELSE CHOOSE i \in MatchIdx : \A j \in MatchIdx : i <= j
\* the expected outcome, from the schedule and the timeout the wait was started with
ExpectReturn == FirstMatchIdx # 0 /\ (to0 = NoT \/ sched[FirstMatchIdx].t < to0)
ExpectRaise  == ~ExpectReturn /\ to0 # NoT /\ to0 <= Horizon
ExpectedDone == IF ExpectReturn THEN sched[FirstMatchIdx].t ELSE IF ExpectRaise THEN to0 ELSE NoT

\* first match or timeout, never both, never neither
Outcome ==
  Quiet => /\ (ExpectReturn => waiter = "returned" /\ resEvent = FirstMatchIdx /\ doneAt = sched[FirstMatchIdx].t)
           /\ (ExpectRaise  => waiter = "raised" /\ doneAt = to0)
           /\ (~ExpectReturn /\ ~ExpectRaise => waiter = "waiting")
NotBoth == ~(waiter = "returned" /\ resTimeout) /\ (waiter = "raised" => resTimeout)
\* polling: exactly at delay + k * interval while not completed; a tick coinciding with the completion instant is free
PollDue(t) == IF poll[1] = NoT THEN FALSE ELSE t >= poll[1] /\ (t - poll[1]) % poll[2] = 0
PollSchedule ==
  Quiet => \A t \in 0..Horizon :
             /\ (t \in polls => PollDue(t) /\ (ExpectedDone = NoT \/ t <= ExpectedDone))
             /\ (PollDue(t) /\ (ExpectedDone = NoT \/ t < ExpectedDone) => t \in polls)
NoPollAfterDone == \A t \in polls : doneAt = NoT \/ t <= doneAt
CallbackRemoved == (waiter \in {"returned", "raised"}) <=> ~registered
=============================================================================
