SPECIFICATION TraceSpec
CONSTANTS
  Which = "C08"
  AllowOversize = FALSE
CONSTRAINT Progress
POSTCONDITION Accepted
CHECK_DEADLOCK FALSE
