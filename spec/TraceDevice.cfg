SPECIFICATION TraceSpec
CONSTANTS
  NoRefresh = "norefresh"
  Which = "all"
CONSTRAINT Progress
POSTCONDITION Accepted
CHECK_DEADLOCK FALSE
