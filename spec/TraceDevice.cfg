SPECIFICATION TraceSpec
CONSTANTS
  NoRefresh = "norefresh"
  AsIsNoContain = FALSE
  Which = "all"
CONSTRAINT Progress
POSTCONDITION Accepted
CHECK_DEADLOCK FALSE
