SPECIFICATION MCSpec
CONSTANTS
  AsIsLoopExit = FALSE
  MaxSegs = 2
  MaxCuts = 2
  Thresholds <- ThrThorough
  CatLimit = 20
INVARIANT Bounded
INVARIANT OnlyMessages
INVARIANT Retained
INVARIANT InOrder
INVARIANT AtMostOnce
INVARIANT LosslessOrderedPrompt
INVARIANT Recovers
INVARIANT Contract
