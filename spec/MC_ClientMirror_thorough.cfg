SPECIFICATION MCSpec
CONSTANTS
  MaxDepth = 4
CONSTRAINT Depth
PROPERTY P_Chain
PROPERTY P_Calls
PROPERTY P_RemovedNeverCalled
