SPECIFICATION MCSpec
CONSTANTS
  MaxDepth = 3
CONSTRAINT Depth
PROPERTY P_Chain
PROPERTY P_Calls
PROPERTY P_RemovedNeverCalled
