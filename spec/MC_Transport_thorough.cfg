SPECIFICATION MCSpec
CONSTANTS
  Conns = {"a", "b"}
  AsIsTtyNoLock = FALSE
  Kinds <- KindsQuick
  MaxMsgs = 3
  MaxFeeds = 2
  MaxAccepts = 3
  Items = {"get", "enable", "eof", "err", "boom", "junk", "partial", "new"}
  Stalled = {}
VIEW MCView
INVARIANT WholeInOrder
INVARIANT PrefixWhenNoFailure
INVARIANT OneInFlight
INVARIANT CleanEnd
INVARIANT PolicyOnlyForClients
INVARIANT NoDuplicateClients
PROPERTY P_NoDeliveryAfterEnd
