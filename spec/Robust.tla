------------------------------- MODULE Robust -------------------------------
(* Contract of C12 at the transport level: a session on one connection (TCP handler, TTY handler or direct router calls)
   in which well-formed but hostile client messages are interleaved with valid traffic.

   State: open (the sending connection is registered with the router and its writer is not closed),
          others (the other connections that must not be disturbed), served (valid requests answered so far).
   Every step of a session must keep the connection open and the others registered, must raise nothing out of message
   handling, may change only elements the message validly names, and every valid getProperties sent afterwards must be
   answered with exactly the definitions the addressed devices owe (C07's count). *)
EXTENDS Integers, Sequences, FiniteSets
VARIABLES open, served
Init == open = TRUE /\ served = 0
\* one hostile message: [raised, registered, closed, othersOK, changed (set of element ids), allowed (set of element ids)]
Hostile(o) == /\ open
              /\ o.raised = "" /\ o.registered /\ ~o.closed /\ o.othersOK
              /\ o.changed \subseteq o.allowed
              /\ UNCHANGED <<open, served>>
\* a valid getProperties afterwards: answered normally
Probe(o) == /\ open
            /\ o.raised = "" /\ o.registered /\ ~o.closed /\ o.othersOK
            /\ o.ndefs = o.expected /\ o.changed = {}
            /\ served' = served + 1 /\ UNCHANGED open
=============================================================================
