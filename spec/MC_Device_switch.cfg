SPECIFICATION SwitchSpec
CONSTANTS
  NoRefresh = "norefresh"
  AsIsNoContain = FALSE
  MaxN = 4
  MaxDepth = 0
VIEW View
PROPERTY P_RulePreserved
PROPERTY P_PubRuleOK
PROPERTY P_AssignOnOK
PROPERTY P_NoRaise
PROPERTY P_SelectOnOK
PROPERTY P_SwitchOneOK
