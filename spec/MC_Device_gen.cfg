SPECIFICATION GenSpec
CONSTANTS
  NoRefresh = "norefresh"
  AsIsNoContain = FALSE
  MaxN = 0
  MaxDepth = 2
CONSTRAINT Depth
PROPERTY P_Frame
PROPERTY P_Taken
PROPERTY P_Robust
PROPERTY P_PubCurrent
PROPERTY P_Reply
PROPERTY P_Write
PROPERTY P_Rule
