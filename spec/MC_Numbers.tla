----------------------------- MODULE MC_Numbers -----------------------------
(* Exhaustive check of Numbers.tla's theorems on resolution grids, and export of the grammar corpus. *)
EXTENDS Numbers, FiniteSets, SequencesExt, Json, IOUtils
CONSTANTS GridFracs,     \* formats whose complete grid on [-MaxDeg, MaxDeg] is checked
          MaxDeg,
          DenseFracs,    \* formats checked on dense sub-grids only
          DenseDeg       \* half-width (degrees) of the sub-grids around 0 and +-MaxDeg
VARIABLES f, u, hi
(* the grid is walked in blocks: one initial state per block, Next steps through the block,
   so that TLC's workers share the work and no large set is ever built *)
Intervals(ff) == IF ff \in GridFracs THEN << <<-MaxDeg * UPW(ff), MaxDeg * UPW(ff)>> >>
                 ELSE << <<-DenseDeg * UPW(ff), DenseDeg * UPW(ff)>>,
                         <<(MaxDeg - DenseDeg) * UPW(ff), MaxDeg * UPW(ff)>>,
                         <<-MaxDeg * UPW(ff), (DenseDeg - MaxDeg) * UPW(ff)>> >>
BlockSize == 4096
BlockStarts(iv) == { iv[1] + k * BlockSize : k \in 0..((iv[2] - iv[1]) \div BlockSize) }
Min2(a, b) == IF a < b THEN a ELSE b
GInit == /\ f \in GridFracs \cup DenseFracs
         /\ \E i \in 1..Len(Intervals(f)) : \E st \in BlockStarts(Intervals(f)[i]) :
               u = st /\ hi = Min2(st + BlockSize - 1, Intervals(f)[i][2])
GNext == u < hi /\ u' = u + 1 /\ UNCHANGED <<f, hi>>
GSpec == GInit /\ [][GNext]_<<f, u, hi>>
InverseInv   == Inverse(u, f)
InRangeInv   == InRange(u, f)
SelfOKInv    == SelfOK(u, f)
ParseBackInv == ParseBack(u, f)

(* the grammar corpus: every string of the INDI number grammar over small digit pools *)
RECURSIVE Join(_)
Join(s) == IF s = <<>> THEN "" ELSE Head(s) \o Join(Tail(s))
Signs  == {<<>>, <<"-">>}
Wholes == {<<"0">>, <<"5">>, <<"9">>, <<"1", "2">>, <<"5", "9">>, <<"0", "0", "7">>, <<"3", "6", "0">>}
TwoD   == {<<"0", "0">>, <<"0", "5">>, <<"3", "0">>, <<"5", "9">>, <<"9", "9">>}
FracD  == {<<>>, <<".", "5">>, <<".", "2", "5">>, <<".", "0">>}
Seps   == {":", ";", " "}
Plain  == { sg \o w \o fr : sg \in Signs, w \in Wholes, fr \in FracD \cup {<<".">>} }
          \cup { sg \o <<".">> \o d : sg \in Signs, d \in {<<"5">>, <<"2", "5">>, <<"0", "5">>} }
Sexa2  == { sg \o w \o <<s1>> \o m \o fr : sg \in Signs, w \in Wholes, s1 \in Seps, m \in TwoD, fr \in FracD }
Sexa3  == { sg \o w \o <<s1>> \o m \o <<s2>> \o s \o fr : sg \in Signs, w \in Wholes, s1 \in Seps, m \in TwoD, s2 \in Seps, s \in TwoD, fr \in FracD }
\* near-misses that are NOT in the grammar (nothing is demanded of them; they document the boundary)
Outside == { <<"-">>, <<".">>, <<"1", ":", "5">>, <<"1", ":", "0", "5", ":">>, <<"1", ":", ":", "0", "5">>, <<"-", "-", "1">>,
             <<"1", ":", "0", "5", ".", ":", "0", "0">>, <<"1", "e", "5">>, <<"1", ":", "0", "5", ":", "0", "0", ":", "0", "0">> }
Corpus == Plain \cup Sexa2 \cup Sexa3 \cup Outside
CorpusOK == /\ \A s \in Plain \cup Sexa2 \cup Sexa3 : ParseText(s).ok
            /\ \A s \in Outside : ~ParseText(s).ok
ASSUME CorpusOK
ASSUME JsonSerialize(IOEnv.OUT_DIR \o "/corpus.json",
                     SetToSeq({ [text |-> Join(s), ok |-> ParseText(s).ok, v |-> ParseText(s).v] : s \in Corpus }))
=============================================================================
