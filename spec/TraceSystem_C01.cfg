SPECIFICATION TraceSpec
CONSTANTS
  Which = "C01"
  AllowOversize = FALSE
CONSTRAINT Progress
POSTCONDITION Accepted
CHECK_DEADLOCK FALSE
