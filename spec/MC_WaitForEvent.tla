--------------------------- MODULE MC_WaitForEvent ---------------------------
EXTENDS WaitForEvent
CONSTANTS MaxArr
Odd  == { t \in 1..(Horizon + 3) : t % 2 = 1 }
Even == { t \in 2..(Horizon + 2) : t % 2 = 0 }
Arrs == UNION { [1..n -> [t : Odd, m : BOOLEAN]] : n \in 0..MaxArr }
Sorted(a) == \A i \in 1..(Len(a) - 1) : a[i].t <= a[i + 1].t
MCInit == \E s \in { a \in Arrs : Sorted(a) } : \E to \in {NoT} \cup Even :
            \E p \in {<<NoT, NoT>>} \cup ({2, 4, 6} \X {2, 4}) : InitWith(s, to, p)
MCSpec == MCInit /\ [][Next]_vars
ProbeInv_TwoMatchesSameInstant == ~(\E i, j \in DOMAIN sched : i < j /\ sched[i].m /\ sched[j].m /\ sched[i].t = sched[j].t /\ waiter = "returned")
ProbeInv_TimeoutWins == ~(waiter = "raised" /\ MatchIdx # {})
ProbeInv_PollThenMatch == ~(waiter = "returned" /\ Cardinality(polls) >= 2)
=============================================================================
