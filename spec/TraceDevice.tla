----------------------------- MODULE TraceDevice -----------------------------
(* Batch trace validation for Device.tla.  TRACE_FILE: JSON array of traces
     [ dep |-> deployment record (see Device.tla), ev |-> << event, ... >> ]
   event = [ o |-> "assign" | "setvalue" | "new" | "get" | "state" | "ven" | "gen" | "sel" | "read" | "tick", args...,
             obs |-> [ val, vst, ven, gen, ntasks, raised (0/1), wireok (0/1: every emitted message re-parses unchanged),
                       pub |-> << [t, v, st, els |-> << <<name, value>> >>] >>,
                       hlog |-> << [h, ev, seen, req, old, new, late (0/1)] >> ] ]
   Which properties are evaluated is selected by Which (the property being checked). *)
EXTENDS Device, Json, IOUtils
CONSTANT Which
VARIABLES tid, l, S
Traces == JsonDeserialize(IOEnv.TRACE_FILE)
N  == Len(Traces)
Tr == Traces[tid]
D  == Tr.dep
Ev == Tr.ev[l]
ASSUME \A t \in 1..N : TLCSet(t, 0)
TraceInit == tid \in 1..N /\ l = 1 /\ S = InitState(D)

RECURSIVE TickAll(_, _)
TickAll(St, n) == IF n = 0 THEN St
                  ELSE LET Q == OpRunTask(D, St) IN TickAll([Q EXCEPT !.hlog = St.hlog \o @, !.pub = St.pub \o @], n - 1)
OpTick(St) == TickAll(Fresh(St), Len(St.tasks))

Post == CASE Ev.o = "assign"   -> OpAssign(D, S, Ev.v, Ev.e, Ev.x)
          [] Ev.o = "setvalue" -> OpSetValue(D, S, Ev.v, Ev.e, Ev.x)
          [] Ev.o = "new"      -> OpNewVector(D, S, Ev.t, Ev.n, Ev.ch)
          [] Ev.o = "get"      -> OpGetProperties(D, S, Ev.t, Ev.n)
          [] Ev.o = "state"    -> OpSetState(D, S, Ev.v, Ev.st)
          [] Ev.o = "ven"      -> OpVecEnabled(D, S, Ev.v, Ev.b)
          [] Ev.o = "gen"      -> OpGroupEnabled(D, S, Ev.g, Ev.b)
          [] Ev.o = "sel"      -> OpSetSelected(D, S, Ev.v, Range(Ev.names))
          [] Ev.o = "read"     -> OpRead(D, S, Ev.v, Ev.e)
          [] Ev.o = "tick"     -> OpTick(S)

PubEq(a, b) == /\ Len(a) = Len(b)
               /\ \A i \in DOMAIN a : a[i].t = b[i].t /\ a[i].v = b[i].v /\ a[i].st = b[i].st /\ a[i].els = b[i].els
HlogEq(a, b) == /\ Len(a) = Len(b)
                /\ \A i \in DOMAIN a : /\ a[i].h = b[i].h /\ a[i].ev = b[i].ev /\ a[i].seen = b[i].seen /\ a[i].req = b[i].req
                                       /\ a[i].old = b[i].old /\ a[i].new = b[i].new /\ a[i].late = b[i].late
\* the order of the definitions in a getProperties reply is not part of any property: compare as bags
Cnt(q, x) == Cardinality({i \in DOMAIN q : q[i] = x})
BagEq(a, b) == Len(a) = Len(b) /\ \A i \in DOMAIN a : Cnt(a, a[i]) = Cnt(b, a[i])
Canon(pubs) == [i \in DOMAIN pubs |-> [t |-> pubs[i].t, v |-> pubs[i].v, st |-> pubs[i].st, els |-> pubs[i].els]]
\* how often a Read handler runs for one publication is not part of any property: consecutive identical records are merged
RECURSIVE Dedup(_)
Dedup(q) == IF Len(q) <= 1 THEN q
            ELSE IF q[1] = q[2] THEN Dedup(Tail(q)) ELSE <<q[1]>> \o Dedup(Tail(q))
CanonH(hl) == [i \in DOMAIN hl |-> [h |-> hl[i].h, ev |-> hl[i].ev, seen |-> hl[i].seen, req |-> hl[i].req, old |-> hl[i].old, new |-> hl[i].new, late |-> hl[i].late]]
ObsOK(Q) == /\ Q.val = Ev.obs.val /\ Q.vst = Ev.obs.vst /\ Q.gen = Ev.obs.gen
            /\ \A v \in DOMAIN D.vecs : VEnabled(D, Q, v) = Ev.obs.ven[v]          \* the public (effective) enabled flag
            /\ Len(Q.tasks) = Ev.obs.ntasks
            /\ Q.raised = Ev.obs.raised
            /\ IF Ev.o = "get" THEN BagEq(Canon(Q.pub), Canon(Ev.obs.pub)) ELSE PubEq(Q.pub, Ev.obs.pub)
            /\ IF Ev.o = "get" THEN BagEq(Dedup(CanonH(Q.hlog)), Dedup(CanonH(Ev.obs.hlog)))
               ELSE Dedup(CanonH(Q.hlog)) = Dedup(CanonH(Ev.obs.hlog))
NoReadOn(v) == ~\E h \in DOMAIN D.hs : D.hs[h].v = v /\ D.hs[h].ev = "R"
NoVetoOn(v) == ~\E h \in DOMAIN D.hs : D.hs[h].v = v /\ D.hs[h].veto
KindOK(v, ch) == \A i \in DOMAIN ch : ch[i][1] \in Range(D.vecs[v].elems) /\ ch[i][3] /\ TypeOK(D, v, ch[i][2])
PropsOK(P, Q) ==
  /\ Ev.obs.wireok                                                            \* C07: every emitted message is valid and re-parses unchanged
  /\ RulePreserved(D, P, Q) /\ PubRuleOK(D, P, Q)                             \* C09
  /\ (Ev.o = "assign" => AssignOnOK(D, P, Q, Ev.v, Ev.e, Ev.x))
  /\ (Ev.o \in {"new", "get", "tick"} => ~Q.raised)                           \* C12
  /\ (Ev.o = "new" => FrameOK(D, P, Q, Ev.t, Ev.n))                           \* C06 / C12
  /\ (Ev.o = "new" /\ Ev.t # None /\ VecOf(D, Ev.t, Ev.n) # 0 /\ KindOK(VecOf(D, Ev.t, Ev.n), Ev.ch)
        /\ NoVetoOn(VecOf(D, Ev.t, Ev.n)) /\ NoReadOn(VecOf(D, Ev.t, Ev.n))
      => TakenOK(D, P, Q, VecOf(D, Ev.t, Ev.n), Ev.ch))                       \* C06
  /\ (Ev.o = "get" => ReplyExact(D, P, Q, Ev.t, Ev.n))                        \* C07
  /\ (Ev.o \in {"assign", "setvalue"} /\ NoReadOn(Ev.v) => WriteContract(D, P, Q, Ev.v, Ev.e, Ev.x, Ev.o = "setvalue"))   \* C14
DebugOn == "VERIF_DEBUG" \in DOMAIN IOEnv
Step == /\ l <= Len(Tr.ev) /\ l' = l + 1 /\ UNCHANGED tid
        /\ S' = Post
        /\ (DebugOn => PrintT(<<"POST", l, [val |-> Post.val, vst |-> Post.vst, ven |-> Post.ven, gen |-> Post.gen, nt |-> Len(Post.tasks), raised |-> Post.raised, pub |-> Post.pub, hlog |-> Post.hlog]>>))
        /\ ObsOK(S')
        /\ PropsOK(S, S')
TraceSpec == TraceInit /\ [][Step]_<<tid, l, S>>
Progress == TLCSet(tid, IF TLCGet(tid) > l THEN TLCGet(tid) ELSE l)
Bad == {t \in 1..N : TLCGet(t) # Len(Traces[t].ev) + 1}
Accepted == /\ PrintT(<<"BATCH", N>>)
            /\ \A t \in Bad : PrintT(<<"REJECT", t, TLCGet(t)>>)
            /\ Bad = {}
=============================================================================
