----------------------------- MODULE TraceDevice -----------------------------
(* Batch trace validation for Device.tla.  TRACE_FILE: JSON array of traces
     [ dep |-> deployment record (see Device.tla), ev |-> << event, ... >> ]
   event = [ o |-> "assign" | "assignfail" | "setvalue" | "new" | "get" | "state" | "ven" | "gen" | "sel" | "read" | "reset" | "tick", args...,
             obs |-> [ val, vst, ven, gen, ntasks, raised (0/1), wireok (0/1: every emitted message re-parses unchanged),
                       pub |-> << [t, v, st, els |-> << <<name, value>> >>] >>,
                       hlog |-> << [h, ev, seen, req, old, new, late (0/1)] >> ] ]
   Which properties are evaluated is selected by Which (the property being checked). *)
EXTENDS Device, Json, IOUtils
CONSTANT Which
VARIABLES tid, l, S
Traces == JsonDeserialize(IOEnv.TRACE_FILE)
N  == Len(Traces)
Tr == Traces[tid]
D  == Tr.dep
Ev == Tr.ev[l]
ASSUME \A t \in 1..N : TLCSet(t, 0)
TraceInit == tid \in 1..N /\ l = 1 /\ S = InitState(D)

RECURSIVE TickAll(_, _)
TickAll(St, n) == IF n = 0 THEN St
                  ELSE LET Q == OpRunTask(D, St) IN TickAll([Q EXCEPT !.hlog = St.hlog \o @, !.pub = St.pub \o @], n - 1)
OpTick(St) == TickAll(Fresh(St), Len(St.tasks))

Post == CASE Ev.o = "assign"   -> OpAssign(D, S, Ev.v, Ev.e, Ev.x)
          [] Ev.o = "setvalue" -> OpSetValue(D, S, Ev.v, Ev.e, Ev.x)
          [] Ev.o = "assignfail" -> OpAssignFail(D, S, Ev.v, Ev.e, Ev.x)
          [] Ev.o = "new"      -> OpNewVector(D, S, Ev.t, Ev.n, Ev.ch)
          [] Ev.o = "get"      -> OpGetProperties(D, S, Ev.t, Ev.n)
          [] Ev.o = "state"    -> OpSetState(D, S, Ev.v, Ev.st)
          [] Ev.o = "ven"      -> OpVecEnabled(D, S, Ev.v, Ev.b)
          [] Ev.o = "gen"      -> OpGroupEnabled(D, S, Ev.g, Ev.b)
          [] Ev.o = "sel"      -> OpSetSelected(D, S, Ev.v, Range(Ev.names))
          [] Ev.o = "read"     -> OpRead(D, S, Ev.v, Ev.e)
          [] Ev.o = "reset"    -> OpReset(D, S, Ev.v, Ev.e, Ev.x)
          [] Ev.o = "tick"     -> OpTick(S)

PubEq(a, b) == /\ Len(a) = Len(b)
               /\ \A i \in DOMAIN a : a[i].t = b[i].t /\ a[i].v = b[i].v /\ a[i].st = b[i].st /\ a[i].els = b[i].els
HlogEq(a, b) == /\ Len(a) = Len(b)
                /\ \A i \in DOMAIN a : /\ a[i].h = b[i].h /\ a[i].ev = b[i].ev /\ a[i].seen = b[i].seen /\ a[i].req = b[i].req
                                       /\ a[i].old = b[i].old /\ a[i].new = b[i].new /\ a[i].late = b[i].late
\* the order of the definitions in a getProperties reply is not part of any property: compare as bags
Cnt(q, x) == Cardinality({i \in DOMAIN q : q[i] = x})
BagEq(a, b) == Len(a) = Len(b) /\ \A i \in DOMAIN a : Cnt(a, a[i]) = Cnt(b, a[i])
Canon(pubs) == [i \in DOMAIN pubs |-> [t |-> pubs[i].t, v |-> pubs[i].v, st |-> pubs[i].st, els |-> pubs[i].els]]
\* how often a Read handler runs for one publication is not part of any property: consecutive identical records are merged
RECURSIVE Dedup(_)
Dedup(q) == IF Len(q) <= 1 THEN q
            ELSE IF q[1] = q[2] THEN Dedup(Tail(q)) ELSE <<q[1]>> \o Dedup(Tail(q))
CanonH(hl) == [i \in DOMAIN hl |-> [h |-> hl[i].h, ev |-> hl[i].ev, seen |-> hl[i].seen, req |-> hl[i].req, old |-> hl[i].old, new |-> hl[i].new, late |-> hl[i].late]]
ObsOK(Q) == /\ Q.val = Ev.obs.val /\ Q.vst = Ev.obs.vst /\ Q.gen = Ev.obs.gen
            /\ \A v \in DOMAIN D.vecs : VEnabled(D, Q, v) = Ev.obs.ven[v]          \* the public (effective) enabled flag
            /\ Len(Q.tasks) = Ev.obs.ntasks
            /\ Q.raised = Ev.obs.raised
            /\ IF Ev.o = "get" THEN BagEq(Canon(Q.pub), Canon(Ev.obs.pub)) ELSE PubEq(Q.pub, Ev.obs.pub)
            /\ IF Ev.o = "get" THEN BagEq(Dedup(CanonH(Q.hlog)), Dedup(CanonH(Ev.obs.hlog)))
               ELSE IF Ev.o = "tick" THEN Range(CanonH(Q.hlog)) = Range(CanonH(Ev.obs.hlog))     \* the order in which pending coroutine handlers run is not part of any property
               ELSE Dedup(CanonH(Q.hlog)) = Dedup(CanonH(Ev.obs.hlog))
NoReadOn(v) == ~\E h \in DOMAIN D.hs : D.hs[h].v = v /\ D.hs[h].ev = "R"
NoVetoOn(v) == ~\E h \in DOMAIN D.hs : D.hs[h].v = v /\ D.hs[h].veto
\* (lights have no new*Vector of their own: what a newTextVector addressed to a light property does is not part of C06 / C14)
KindOK(v, ch) == D.vecs[v].kind # "light" /\ \A i \in DOMAIN ch : ch[i][1] \in Range(D.vecs[v].elems) /\ ch[i][3] /\ TypeOK(D, v, ch[i][2])
PropsOK(P, Q) ==
  /\ Ev.obs.wireok                                                            \* C07: every emitted message is valid and re-parses unchanged
  /\ RulePreserved(D, P, Q) /\ PubRuleOK(D, P, Q)                             \* C09
  /\ (Ev.o \in {"assign", "assignfail"} => AssignOnOK(D, P, Q, Ev.v, Ev.e, Ev.x))
  /\ (Ev.o \in {"assign", "assignfail", "setvalue"} /\ NoVetoOn(Ev.v) /\ NoReadOn(Ev.v) => SwitchOneOK(D, P, Q, Ev.v, Ev.e, Ev.x))
  /\ (Ev.o = "new" /\ Ev.t # None /\ VecOf(D, Ev.t, Ev.n) # 0 /\ Len(Ev.ch) = 1 /\ KindOK(VecOf(D, Ev.t, Ev.n), Ev.ch)
        /\ NoVetoOn(VecOf(D, Ev.t, Ev.n)) /\ NoReadOn(VecOf(D, Ev.t, Ev.n))
      => SwitchOneOK(D, P, Q, VecOf(D, Ev.t, Ev.n), IndexOf(D.vecs[VecOf(D, Ev.t, Ev.n)].elems, Ev.ch[1][1]), Ev.ch[1][2]))
  /\ (Ev.o = "sel" /\ (\A h \in DOMAIN D.hs : D.hs[h].v # Ev.v) => SelectOnOK(D, Q, Ev.v, Range(Ev.names)))
  /\ (Ev.o \in {"new", "get", "tick"} => ~Q.raised)                           \* C12
  /\ (Ev.o = "new" => FrameOK(D, P, Q, Ev.t, Ev.n))                           \* C06 / C12
  /\ (Ev.o = "new" /\ Ev.t # None /\ VecOf(D, Ev.t, Ev.n) # 0 /\ KindOK(VecOf(D, Ev.t, Ev.n), Ev.ch)
        /\ NoVetoOn(VecOf(D, Ev.t, Ev.n)) /\ NoReadOn(VecOf(D, Ev.t, Ev.n))
      => TakenOK(D, P, Q, VecOf(D, Ev.t, Ev.n), Ev.ch))                       \* C06
  /\ (Ev.o = "get" => ReplyExact(D, P, Q, Ev.t, Ev.n))                        \* C07
  /\ (Ev.o \in {"assign", "setvalue"} /\ NoReadOn(Ev.v) => WriteContract(D, P, Q, Ev.v, Ev.e, Ev.x, Ev.o = "setvalue"))   \* C14
DebugOn == "VERIF_DEBUG" \in DOMAIN IOEnv
(* ---- contract mode (Which = "contract"): the declarative properties evaluated on OBSERVED pre- and post-states only,
   without the operational model.  Used as the verdict of last resort for a trace the model cannot explain step by step:
   only what the properties state is demanded (no order among handlers of one event, no order between publication and
   handlers, no particular number of Read events, coroutine handlers only counted). *)
ObsState(o, tasksLen) ==
  [val |-> o.val, vst |-> o.vst, ven |-> o.ven, gen |-> [g \in DOMAIN D.grps |-> TRUE],
   tasks |-> [i \in 1..tasksLen |-> [h |-> 0, req |-> None, old |-> None, new |-> None]],
   pub |-> Canon(o.pub), hlog |-> CanonH(o.hlog), raised |-> o.raised]
InitObs == [val |-> D.val0, vst |-> D.vst0, ven |-> [v \in DOMAIN D.vecs |-> D.ven0[v] /\ D.gen0[D.vecs[v].grp]], ntasks |-> 0,
            raised |-> FALSE, pub |-> <<>>, hlog |-> <<>>]
PrevObs == IF l = 1 THEN InitObs ELSE Tr.ev[l - 1].obs
PO == ObsState(PrevObs, PrevObs.ntasks)
QO == ObsState(Ev.obs, Ev.obs.ntasks)
SameBag(a, b) == Len(a) = Len(b) /\ (\A i \in DOMAIN a : Cnt(a, a[i]) = Cnt(b, a[i])) /\ (\A j \in DOMAIN b : Cnt(a, b[j]) = Cnt(b, b[j]))
\* C14 on observations: plain handlers as a bag, coroutine handlers counted
WriteContractObs(v, e, x, viaWrite) ==
  LET ws == Hs(D, v, e, "W")
      plainW == SelectSeq(ws, LAMBDA h : ~D.hs[h].coro)
      coroW == SelectSeq(ws, LAMBDA h : D.hs[h].coro)
      vetoed == viaWrite /\ \E i \in DOMAIN plainW : D.hs[plainW[i]].veto
      wlog == SelectSeq(QO.hlog, LAMBDA r : r.ev = "W")
      clog == SelectSeq(QO.hlog, LAMBDA r : r.ev = "C" /\ D.hs[r.h].v = v /\ D.hs[r.h].e = e)
      sets == SelectSeq(QO.pub, LAMBDA m : m.t = "set" /\ m.v = v)
      newv == QO.val[v][e]
      plainC == SelectSeq(Hs(D, v, e, "C"), LAMBDA h : ~D.hs[h].coro)
      coroC == SelectSeq(Hs(D, v, e, "C"), LAMBDA h : D.hs[h].coro)
      changed == newv # PO.val[v][e]
      newTasks == Ev.obs.ntasks - PrevObs.ntasks
      \* switch siblings that the rule flipped may raise Change events of their own (C14 neither demands nor forbids it): their
      \* coroutine handlers may account for further tasks
      sibC == Cardinality({h \in DOMAIN D.hs : D.hs[h].v = v /\ D.hs[h].e # e /\ D.hs[h].ev = "C" /\ D.hs[h].coro
                                                 /\ QO.val[v][D.hs[h].e] # PO.val[v][D.hs[h].e]})
      TasksAre(n) == newTasks >= n /\ newTasks <= n + sibC
  IN /\ (viaWrite => SameBag([i \in DOMAIN wlog |-> wlog[i].h], plainW)
                      /\ \A i \in DOMAIN wlog : wlog[i].req = x /\ wlog[i].seen = PO.val[v][e] /\ ~wlog[i].late)
     /\ (~viaWrite => wlog = <<>>)
     /\ (vetoed => QO.val = PO.val /\ QO.pub = <<>> /\ clog = <<>> /\ TasksAre(Len(coroW)))
     /\ ((~vetoed /\ TypeOK(D, v, x)) =>
           /\ (PO.ven[v] => Len(sets) = 1) /\ (~PO.ven[v] => Len(sets) = 0)
           /\ (PO.ven[v] /\ D.vecs[v].een[e] /\ ~(D.vecs[v].kind = "blob" /\ newv = None) =>
                  \E k \in DOMAIN sets[1].els : sets[1].els[k] = <<D.vecs[v].elems[e], newv>>)
           /\ (IF D.vecs[v].kind = "blob" /\ ~changed THEN TRUE
               ELSE IF changed
               THEN /\ SameBag([i \in DOMAIN clog |-> clog[i].h], plainC)
                    /\ \A i \in DOMAIN clog : clog[i].old = PO.val[v][e] /\ clog[i].new = newv
                    /\ TasksAre((IF viaWrite THEN Len(coroW) ELSE 0) + Len(coroC))
               ELSE clog = <<>> /\ TasksAre(IF viaWrite THEN Len(coroW) ELSE 0)))
\* C14: plain Read handlers run before a value is published: every publication of a vector shows, for each enabled element that
\* has a plain Read handler, at least one invocation of it in the same operation (a defBLOB carries no value and reads nothing)
ReadContractObs ==
  \A i \in DOMAIN QO.pub : LET m == QO.pub[i] IN
     (m.t = "set" \/ (m.t = "def" /\ D.vecs[m.v].kind # "blob")) =>
        \A e \in DOMAIN D.vecs[m.v].elems : D.vecs[m.v].een[e] =>
           \A k \in DOMAIN Hs(D, m.v, e, "R") : ~D.hs[Hs(D, m.v, e, "R")[k]].coro =>
              \E j \in DOMAIN QO.hlog : QO.hlog[j].h = Hs(D, m.v, e, "R")[k] /\ QO.hlog[j].ev = "R"
\* what is published is current: outside a write (whose intermediate publications are judged by the write contract) every update
\* or definition of a property lists the values its elements hold when the operation is over
PubCurrentObs ==
  \A i \in DOMAIN QO.pub : LET m == QO.pub[i] IN
     (m.v # 0 /\ (m.t = "set" \/ (m.t = "def" /\ D.vecs[m.v].kind # "blob"))) =>
        \A k \in DOMAIN m.els : \A e \in DOMAIN D.vecs[m.v].elems :
           D.vecs[m.v].elems[e] = m.els[k][1] => m.els[k][2] = QO.val[m.v][e]
\* which properties are enabled is a matter of the operations so far alone: a property is visible iff its own flag (the last
\* `enabled =` on it, else its declaration) and its group's flag (likewise) are both set; toggling a group does not touch the
\* properties' own flags
LastOp(o, key, val, k) == LET I == {i \in 1..k : Tr.ev[i].o = o /\ Tr.ev[i][key] = val} IN IF I = {} THEN 0 ELSE CHOOSE i \in I : \A j \in I : j <= i
OwnVen(v) == IF LastOp("ven", "v", v, l) = 0 THEN D.ven0[v] ELSE Tr.ev[LastOp("ven", "v", v, l)].b
GroupOn(g) == IF LastOp("gen", "g", g, l) = 0 THEN D.gen0[g] ELSE Tr.ev[LastOp("gen", "g", g, l)].b
EnabledOK == \A v \in DOMAIN D.vecs : QO.ven[v] = (OwnVen(v) /\ GroupOn(D.vecs[v].grp))
ContractOK ==
  /\ Ev.obs.wireok
  /\ EnabledOK
  /\ (Ev.o \in {"state", "get", "ven", "gen", "reset"} /\ (\A h \in DOMAIN D.hs : D.hs[h].refresh = NoRefresh \/ D.hs[h].coro) => PubCurrentObs)
  /\ (Ev.o = "reset" => QO.pub = <<>> /\ QO.hlog = <<>> /\ QO.vst = PO.vst /\ QO.ven = PO.ven
                         /\ \A v \in DOMAIN PO.val : \A e \in DOMAIN PO.val[v] : (v # Ev.v \/ e # Ev.e) => QO.val[v][e] = PO.val[v][e])
  /\ ReadContractObs
  /\ RulePreserved(D, PO, QO) /\ PubRuleOK(D, PO, QO)
  /\ (Ev.o \in {"assign", "assignfail"} => AssignOnOK(D, PO, QO, Ev.v, Ev.e, Ev.x))
  /\ (Ev.o \in {"assign", "assignfail", "setvalue"} /\ NoVetoOn(Ev.v) /\ NoReadOn(Ev.v) => SwitchOneOK(D, PO, QO, Ev.v, Ev.e, Ev.x))
  /\ (Ev.o = "new" /\ Ev.t # None /\ VecOf(D, Ev.t, Ev.n) # 0 /\ Len(Ev.ch) = 1 /\ KindOK(VecOf(D, Ev.t, Ev.n), Ev.ch)
        /\ NoVetoOn(VecOf(D, Ev.t, Ev.n)) /\ NoReadOn(VecOf(D, Ev.t, Ev.n))
      => SwitchOneOK(D, PO, QO, VecOf(D, Ev.t, Ev.n), IndexOf(D.vecs[VecOf(D, Ev.t, Ev.n)].elems, Ev.ch[1][1]), Ev.ch[1][2]))
  /\ (Ev.o = "sel" /\ (\A h \in DOMAIN D.hs : D.hs[h].v # Ev.v) => SelectOnOK(D, QO, Ev.v, Range(Ev.names)))
  /\ (Ev.o \in {"new", "get", "tick"} => ~QO.raised)
  /\ (Ev.o = "new" => FrameOK(D, PO, QO, Ev.t, Ev.n))
  /\ (Ev.o = "new" /\ Ev.t # None /\ VecOf(D, Ev.t, Ev.n) # 0 /\ KindOK(VecOf(D, Ev.t, Ev.n), Ev.ch)
        /\ NoVetoOn(VecOf(D, Ev.t, Ev.n)) /\ NoReadOn(VecOf(D, Ev.t, Ev.n))
      => TakenOK(D, PO, QO, VecOf(D, Ev.t, Ev.n), Ev.ch))
  /\ (Ev.o = "get" => ReplyExact(D, PO, QO, Ev.t, Ev.n))
  /\ (Ev.o \in {"assign", "setvalue"} /\ NoReadOn(Ev.v) => WriteContractObs(Ev.v, Ev.e, Ev.x, Ev.o = "setvalue"))
  \* a client write of one convertible member is a set_value on that element
  /\ (Ev.o = "new" /\ Ev.t # None /\ VecOf(D, Ev.t, Ev.n) # 0 /\ Len(Ev.ch) = 1 /\ KindOK(VecOf(D, Ev.t, Ev.n), Ev.ch)
        /\ NoReadOn(VecOf(D, Ev.t, Ev.n))
      => WriteContractObs(VecOf(D, Ev.t, Ev.n), IndexOf(D.vecs[VecOf(D, Ev.t, Ev.n)].elems, Ev.ch[1][1]), Ev.ch[1][2], TRUE))
  \* what no property allows to change silently: an operation that is not a write / toggle leaves values and states alone
  /\ (Ev.o \in {"get", "read", "tick"} /\ (\A h \in DOMAIN D.hs : D.hs[h].refresh = NoRefresh) => QO.val = PO.val /\ QO.vst = PO.vst /\ QO.ven = PO.ven)

StepModel ==
        /\ S' = Post
        /\ (DebugOn => PrintT(<<"POST", l, [val |-> Post.val, vst |-> Post.vst, ven |-> Post.ven, gen |-> Post.gen, nt |-> Len(Post.tasks), raised |-> Post.raised, pub |-> Post.pub, hlog |-> Post.hlog]>>))
        /\ ObsOK(S')
        /\ PropsOK(S, S')
Step == /\ l <= Len(Tr.ev) /\ l' = l + 1 /\ UNCHANGED tid
        /\ IF Which = "contract" THEN S' = S /\ ContractOK ELSE StepModel
TraceSpec == TraceInit /\ [][Step]_<<tid, l, S>>
Progress == TLCSet(tid, IF TLCGet(tid) > l THEN TLCGet(tid) ELSE l)
Bad == {t \in 1..N : TLCGet(t) # Len(Traces[t].ev) + 1}
Accepted == /\ PrintT(<<"BATCH", N>>)
            /\ \A t \in Bad : PrintT(<<"REJECT", t, TLCGet(t)>>)
            /\ Bad = {}
=============================================================================
