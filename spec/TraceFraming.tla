---------------------------- MODULE TraceFraming ----------------------------
(* Batch trace validation of real-world text against Framing.tla.
   TRACE_FILE: JSON array of traces
     [ thr, clean (0/1), msgs |-> << [id, first, last], ... >>,
       ev |-> << [fed, ids |-> <<id or 0, ...>> delivered by this call, genuine |-> <<0/1, ...>>,
                  dlen, raised |-> ""], ... >> ] *)
EXTENDS Framing, TLC, Json, IOUtils
VARIABLES tid, l, fed, delivered
Traces == JsonDeserialize(IOEnv.TRACE_FILE)
N  == Len(Traces)
Tr == Traces[tid]
Ev == Tr.ev[l]
ASSUME \A t \in 1..N : TLCSet(t, 0)
TraceInit == tid \in 1..N /\ l = 1 /\ fed = 0 /\ delivered = <<>>
Step == /\ l <= Len(Tr.ev)
        /\ l' = l + 1 /\ UNCHANGED tid
        /\ Ev.raised = ""                                     \* C11: raises nothing, terminates (watchdog text otherwise)
        /\ \A i \in DOMAIN Ev.genuine : Ev.genuine[i] = 1     \* C11: only genuine protocol messages are handed over
        /\ Ev.fed > fed
        /\ fed' = Ev.fed /\ delivered' = delivered \o Ev.ids
        /\ FramingContract(Tr.msgs, Tr.clean = 1, Tr.thr, fed', delivered', Ev.dlen)
TraceSpec == TraceInit /\ [][Step]_<<tid, l, fed, delivered>>
Progress == TLCSet(tid, IF TLCGet(tid) > l THEN TLCGet(tid) ELSE l)
Bad == {t \in 1..N : TLCGet(t) # Len(Traces[t].ev) + 1}
Accepted == /\ PrintT(<<"BATCH", N>>)
            /\ \A t \in Bad : PrintT(<<"REJECT", t, TLCGet(t)>>)
            /\ Bad = {}
=============================================================================
