-------------------------- MODULE TraceWaitForEvent --------------------------
(* Validation of observed waitforevent runs.  TRACE_FILE: JSON array of
     [ sched |-> << [t, m (0/1)], ... >>, timeout, poll |-> <<delay, interval>>  (NoT = -1),
       obs |-> [ outcome |-> "returned" | "raised" | "waiting", ev |-> index of the returned arrival or 0,
                 doneAt |-> half-step instant of completion or -1, polls |-> << instants >>, registered |-> 0/1 ] ]
   A run is accepted iff the model, started with the same schedule, has a quiescent state with exactly the observed
   outcome, completion instant, polling instants and callback registration, and the declarative statements of
   C17 hold there. *)
EXTENDS WaitForEvent, Json, IOUtils
VARIABLE tid
Traces == JsonDeserialize(IOEnv.TRACE_FILE)
N  == Len(Traces)
Tr == Traces[tid]
ASSUME \A t \in 1..N : TLCSet(t, 0)
TraceInit == /\ tid \in 1..N
             /\ InitWith([i \in DOMAIN Tr.sched |-> [t |-> Tr.sched[i].t, m |-> Tr.sched[i].m = 1]], Tr.timeout, <<Tr.poll[1], Tr.poll[2]>>)
TraceNext == Next /\ UNCHANGED tid
TraceSpec == TraceInit /\ [][TraceNext]_<<vars, tid>>
Matches == /\ Quiet
           /\ waiter = Tr.obs.outcome
           /\ (waiter = "returned" => resEvent = Tr.obs.ev)
           /\ doneAt = Tr.obs.doneAt
           /\ polls = {Tr.obs.polls[i] : i \in DOMAIN Tr.obs.polls}
           /\ registered = (Tr.obs.registered = 1)
           /\ Outcome /\ NotBoth /\ PollSchedule /\ NoPollAfterDone /\ CallbackRemoved
Progress == IF Matches THEN TLCSet(tid, 1) ELSE TRUE
Bad == {t \in 1..N : TLCGet(t) # 1}
Accepted == /\ PrintT(<<"BATCH", N>>)
            /\ \A t \in Bad : PrintT(<<"REJECT", t, 1>>)
            /\ Bad = {}
=============================================================================
