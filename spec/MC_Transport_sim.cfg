SPECIFICATION MCSpec
CONSTANTS
  Conns = {"a", "b", "c"}
  AsIsTtyNoLock = FALSE
  Kinds <- KindsSim
  MaxMsgs = 6
  MaxFeeds = 5
  MaxAccepts = 3
  Items = {"get", "enable", "eof", "err", "boom", "junk", "new"}
  Stalled = {}
INVARIANT WholeInOrder
INVARIANT PrefixWhenNoFailure
INVARIANT CleanEnd
