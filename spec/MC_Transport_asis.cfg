SPECIFICATION MCSpec
CONSTANTS
  Conns = {"a", "b"}
  AsIsTtyNoLock = TRUE
  Kinds <- KindsTty
  MaxMsgs = 2
  MaxFeeds = 0
  MaxAccepts = 2
  Items = {"get", "enable", "eof", "err", "boom", "junk", "partial", "new"}
  Stalled = {}
VIEW MCView
INVARIANT WholeInOrder
INVARIANT PrefixWhenNoFailure
