SPECIFICATION TraceSpec
CONSTANTS
  Which = "C15"
CONSTRAINT Progress
POSTCONDITION Accepted
CHECK_DEADLOCK FALSE
