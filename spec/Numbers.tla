------------------------------- MODULE Numbers -------------------------------
(* INDI number text (indi/device/values.py num_to_str / str_to_num, indi/message/checks.py number)
   in exact integer arithmetic.

   Sexagesimal formats %<w>.<f>m, f in {3,5,6,8,9}: the last rendered place is
     f=3  minutes (1/60)        f=5  tenths of minutes (1/600)     f=6  seconds (1/3600)
     f=8  tenths of seconds (1/36000)                            f=9  hundredths of seconds (1/360000)
   A value on the format's grid is an integer number of such units with a sign.
   Text is a sequence of characters; ParseText implements the INDI number grammar
       -? ( d+ (. d* )? | . d+ )                     plain integer / decimal
       -? d+ S dd (. d+)?                            whole, minutes
       -? d+ S dd S dd (. d+)?                       whole, minutes, seconds      S in {":", ";", " "}
   and returns the value in units of 1/360000 (exact for at most two fraction digits). *)
EXTENDS Integers, Sequences, TLC

Fracs == {3, 5, 6, 8, 9}
UPW(f) == CASE f = 3 -> 60 [] f = 5 -> 600 [] f = 6 -> 3600 [] f = 8 -> 36000 [] f = 9 -> 360000
Abs(x) == IF x < 0 THEN -x ELSE x

-----------------------------------------------------------------------------
(* canonical rendering of u units (sign over the whole magnitude, carries already resolved because
   u is an integer count of the last place) *)
Render(u, f) ==
  LET a == Abs(u)
      w == a \div UPW(f)
      r == a % UPW(f)
  IN [neg |-> u < 0, whole |-> w,
      mm |-> CASE f = 3 -> r [] f = 5 -> r \div 10 [] f = 6 -> r \div 60 [] f = 8 -> r \div 600 [] f = 9 -> r \div 6000,
      ss |-> CASE f \in {3, 5} -> 0 [] f = 6 -> r % 60 [] f = 8 -> (r % 600) \div 10 [] f = 9 -> (r % 6000) \div 100,
      fr |-> CASE f \in {3, 6} -> 0 [] f = 5 -> r % 10 [] f = 8 -> r % 10 [] f = 9 -> r % 100]

(* units denoted by rendered fields *)
Rest(x, f) == CASE f = 3 -> x.mm [] f = 5 -> x.mm * 10 + x.fr [] f = 6 -> x.mm * 60 + x.ss
                [] f = 8 -> x.mm * 600 + x.ss * 10 + x.fr [] f = 9 -> x.mm * 6000 + x.ss * 100 + x.fr
Denote(x, f) == (IF x.neg THEN -1 ELSE 1) * (x.whole * UPW(f) + Rest(x, f))
FieldsInRange(x, f) == /\ x.mm \in 0..59 /\ x.ss \in 0..59
                       /\ x.fr \in 0..(CASE f \in {5, 8} -> 9 [] f = 9 -> 99 [] OTHER -> 0)

(* RenderOK on limbs, usable for any magnitude below 2^31 wholes:
   the value is  sign * (W + r10 / (10 * UPW))  (r10 = tenths of units, 0 <= r10 < 10*UPW);
   the text denotes sign' * (whole + rest / UPW); they must agree within one unit. *)
RenderOK(neg, W, r10, x, f) ==
  /\ FieldsInRange(x, f)
  /\ IF neg = x.neg
     THEN /\ Abs(W - x.whole) <= 1
          /\ Abs((x.whole - W) * UPW(f) * 10 + Rest(x, f) * 10 - r10) <= 10
     ELSE W = 0 /\ x.whole = 0 /\ r10 + Rest(x, f) * 10 <= 10

-----------------------------------------------------------------------------
(* spelling of rendered fields as characters, and the INDI grammar parser on characters *)
Digit(d) == CASE d = 0 -> "0" [] d = 1 -> "1" [] d = 2 -> "2" [] d = 3 -> "3" [] d = 4 -> "4"
              [] d = 5 -> "5" [] d = 6 -> "6" [] d = 7 -> "7" [] d = 8 -> "8" [] d = 9 -> "9"
RECURSIVE Digits(_)
Digits(n) == IF n < 10 THEN <<Digit(n)>> ELSE Append(Digits(n \div 10), Digit(n % 10))
Two(n) == <<Digit(n \div 10), Digit(n % 10)>>
Spell(x, f, sep) ==
  (IF x.neg THEN <<"-">> ELSE <<>>) \o Digits(x.whole) \o <<sep>> \o Two(x.mm)
  \o (CASE f = 3 -> <<>>
        [] f = 5 -> <<".", Digit(x.fr)>>
        [] f = 6 -> <<sep>> \o Two(x.ss)
        [] f = 8 -> <<sep>> \o Two(x.ss) \o <<".", Digit(x.fr)>>
        [] f = 9 -> <<sep>> \o Two(x.ss) \o <<".">> \o Two(x.fr))

IsDigit(c) == c \in {"0", "1", "2", "3", "4", "5", "6", "7", "8", "9"}
IsSep(c) == c \in {":", ";", " "}
DVal(c) == CASE c = "0" -> 0 [] c = "1" -> 1 [] c = "2" -> 2 [] c = "3" -> 3 [] c = "4" -> 4
             [] c = "5" -> 5 [] c = "6" -> 6 [] c = "7" -> 7 [] c = "8" -> 8 [] c = "9" -> 9
RECURSIVE DigitRun(_, _)
DigitRun(s, i) == IF i <= Len(s) /\ IsDigit(s[i]) THEN DigitRun(s, i + 1) ELSE i    \* first index after the run
RECURSIVE NatOf(_, _, _)
NatOf(s, i, j) == IF i >= j THEN 0 ELSE NatOf(s, i, j - 1) * 10 + DVal(s[j - 1])    \* value of s[i..j-1]
\* fraction digits s[i..j-1] (at most two are significant on the 1/100 grid) scaled to hundredths
Hundredths(s, i, j) == IF j - i = 0 THEN 0 ELSE IF j - i = 1 THEN DVal(s[i]) * 10 ELSE DVal(s[i]) * 10 + DVal(s[i + 1])
Bad == [ok |-> FALSE, v |-> 0]
Ok(neg, v) == [ok |-> TRUE, v |-> IF neg THEN -v ELSE v]

(* value in 1/360000; fields carry at most two fraction digits in the enumerated grammar *)
ParseText(s) ==
  LET neg == Len(s) > 0 /\ s[1] = "-"
      b   == IF neg THEN 2 ELSE 1
      e1  == DigitRun(s, b)
  IN IF b > Len(s) THEN Bad
     ELSE IF e1 = b
          THEN \* ".d+"
               IF s[b] = "." /\ DigitRun(s, b + 1) = Len(s) + 1 /\ Len(s) >= b + 1 /\ Len(s) - b <= 2
               THEN Ok(neg, Hundredths(s, b + 1, Len(s) + 1) * 3600) ELSE Bad
          ELSE LET w == NatOf(s, b, e1) IN
               IF e1 = Len(s) + 1 THEN Ok(neg, w * 360000)
               ELSE IF s[e1] = "."
                    THEN IF DigitRun(s, e1 + 1) = Len(s) + 1 /\ Len(s) - e1 <= 2
                         THEN Ok(neg, w * 360000 + Hundredths(s, e1 + 1, Len(s) + 1) * 3600) ELSE Bad
               ELSE IF ~IsSep(s[e1]) THEN Bad
               ELSE LET m1 == e1 + 1
                        e2 == DigitRun(s, m1)
                    IN IF e2 - m1 # 2 THEN Bad
                       ELSE LET mm == NatOf(s, m1, e2) IN
                            IF e2 = Len(s) + 1 THEN Ok(neg, w * 360000 + mm * 6000)
                            ELSE IF s[e2] = "."
                                 THEN IF DigitRun(s, e2 + 1) = Len(s) + 1 /\ Len(s) > e2 /\ Len(s) - e2 <= 2
                                      THEN Ok(neg, w * 360000 + mm * 6000 + Hundredths(s, e2 + 1, Len(s) + 1) * 60) ELSE Bad
                            ELSE IF ~IsSep(s[e2]) THEN Bad
                            ELSE LET s1 == e2 + 1
                                     e3 == DigitRun(s, s1)
                                 IN IF e3 - s1 # 2 THEN Bad
                                    ELSE LET ss == NatOf(s, s1, e3) IN
                                         IF e3 = Len(s) + 1 THEN Ok(neg, w * 360000 + mm * 6000 + ss * 100)
                                         ELSE IF s[e3] = "." /\ DigitRun(s, e3 + 1) = Len(s) + 1 /\ Len(s) > e3 /\ Len(s) - e3 <= 2
                                              THEN Ok(neg, w * 360000 + mm * 6000 + ss * 100 + Hundredths(s, e3 + 1, Len(s) + 1))
                                              ELSE Bad

(* theorems checked on the full grids *)
Inverse(u, f)    == Denote(Render(u, f), f) = u
InRange(u, f)    == FieldsInRange(Render(u, f), f)
SelfOK(u, f)     == RenderOK(u < 0, Abs(u) \div UPW(f), (Abs(u) % UPW(f)) * 10, Render(u, f), f)
ParseBack(u, f)  == \A sep \in {":", ";", " "} :
                       LET p == ParseText(Spell(Render(u, f), f, sep)) IN p.ok /\ p.v = u * (360000 \div UPW(f))

(* printf formats on the micro grid: value = sign * (W + f6 / 10^6); text = sign' * (whole + t6 / 10^6);
   prec = digits after the point (0 for %d); tolerance one unit of the last rendered place *)
Pow10(n) == CASE n = 0 -> 1 [] n = 1 -> 10 [] n = 2 -> 100 [] n = 3 -> 1000 [] n = 4 -> 10000 [] n = 5 -> 100000 [] n = 6 -> 1000000
PrintfOK(neg, W, f6, tneg, twhole, t6, prec) ==
  LET tol == Pow10(6 - prec) IN
  IF neg = tneg
  THEN /\ Abs(W - twhole) <= 1
       /\ Abs((twhole - W) * 1000000 + t6 - f6) <= tol
  ELSE W = 0 /\ twhole = 0 /\ f6 + t6 <= tol
=============================================================================
