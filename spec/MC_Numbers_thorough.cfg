SPECIFICATION GSpec
CONSTANTS
  GridFracs = {3, 5, 6}
  MaxDeg = 360
  DenseFracs = {8, 9}
  DenseDeg = 2
INVARIANT InverseInv
INVARIANT InRangeInv
INVARIANT SelfOKInv
INVARIANT ParseBackInv
