------------------------------ MODULE Transport ------------------------------
(* Connection handlers of indi/transport/server/{tcp,tty}.py and indi/transport/client/tcp.py on one
   asyncio event loop, at await granularity.

   The event loop is modelled as asyncio implements it: a FIFO `ready` queue; one Tick runs exactly the
   handles that were ready when the iteration started, handles scheduled meanwhile run in the next
   iteration.  The only nondeterminism is the environment: which connection is accepted / fed / closed by
   the peer, which device message is sent, and WHEN each outstanding awaitable (drain of a TCP writer,
   write / flush job of the TTY thread pool) completes or fails.  Those are exactly the scheduler's choice
   points the properties C18 / C19 quantify over.

   The whole system state is one record S so that a Tick (a loop over the ready snapshot) can be written
   as a fold.  Fields:
     kind     c -> "tcp" | "tty" | "cli" | "none"
     rst      c -> reader task state: "none" "new" "waiting" "runnable" "done"
     inq      c -> input items made available by the peer, not yet consumed
     clients  registered router clients in registration order;  pol: c -> "unset"|"Also" for registered c
     routed   c -> ids of the messages handed to the connection (message_from_device / send_message)
     wire     c -> ids written to the connection's output stream, in output order
     closed   c -> writer closed
     tasks    id -> [c, m, ph]   send tasks: ph in "start" "lockwait" "w1" "w2" "done" "failed"
     ready    FIFO of <<"reader", c>> | <<"task", id>>
     holder   c -> task id holding the sender lock or 0;  waiters: c -> FIFO of task ids
     pend     c -> outstanding awaitables <<task id, "drain"|"write"|"flush", failing>>
     stuck    c -> a partial element sits at the front of c's framing buffer (later elements are swallowed
              until the cleanup threshold, which the short sessions modelled here never reach)
     devlog   messages delivered to the (recording) device
   Input items are <<name, id>>: "get" (getProperties, also relayed to the other clients under message id `id`),
   "enable" (enableBLOB), "new" (a write), "boom" (a write the device raises on), "junk", "partial", "eof", "err". *)
EXTENDS Integers, Sequences, FiniteSets, TLC

CONSTANTS Conns, AsIsTtyNoLock

Range(s) == {s[i] : i \in DOMAIN s}
Without(s, x) == SelectSeq(s, LAMBDA y : y # x)

S0 == [kind |-> [c \in Conns |-> "none"], rst |-> [c \in Conns |-> "none"], inq |-> [c \in Conns |-> <<>>],
       clients |-> <<>>, pol |-> [c \in Conns |-> "gone"],
       routed |-> [c \in Conns |-> <<>>], wire |-> [c \in Conns |-> <<>>], closed |-> [c \in Conns |-> FALSE],
       tasks |-> <<>>, ready |-> <<>>, holder |-> [c \in Conns |-> 0], waiters |-> [c \in Conns |-> <<>>],
       pend |-> [c \in Conns |-> <<>>], devlog |-> <<>>, stuck |-> [c \in Conns |-> FALSE]]

-----------------------------------------------------------------------------
(* send tasks *)
UsesLock(s, c) == ~(AsIsTtyNoLock /\ s.kind[c] = "tty")

\* message_from_device / send_message: serialise now, create the task (its first step runs next iteration)
Route(s, c, m) ==
  LET id == Len(s.tasks) + 1 IN
  [s EXCEPT !.routed[c] = Append(@, m),
            !.tasks = Append(@, [c |-> c, m |-> m, ph |-> "start"]),
            !.ready = Append(@, <<"task", id>>)]

\* the body once the lock is owned (or not needed): tcp/cli write synchronously and await drain;
\* tty awaits the thread-pool write first
Body(s, id) ==
  LET c == s.tasks[id].c IN
  IF s.kind[c] = "tty"
  THEN [s EXCEPT !.pend[c] = Append(@, <<id, "write", FALSE>>), !.tasks[id].ph = "w1"]
  ELSE [s EXCEPT !.wire[c] = Append(@, s.tasks[id].m), !.pend[c] = Append(@, <<id, "drain", FALSE>>), !.tasks[id].ph = "w2"]

Release(s, id) ==
  LET c == s.tasks[id].c IN
  IF ~UsesLock(s, c) THEN s
  ELSE LET s1 == [s EXCEPT !.holder[c] = 0] IN
       IF s.waiters[c] # <<>>                       \* Lock._wake_up_first: first waiter is scheduled, stays queued until it runs
       THEN [s1 EXCEPT !.ready = Append(@, <<"task", Head(s.waiters[c])>>)]
       ELSE s1

\* one step of a send task: runs until its next suspension
TaskStep(s, id, failing) ==
  LET t == s.tasks[id]
      c == t.c
  IN CASE t.ph = "start" ->
            IF UsesLock(s, c) /\ (s.holder[c] # 0 \/ s.waiters[c] # <<>>)
            THEN [s EXCEPT !.waiters[c] = Append(@, id), !.tasks[id].ph = "lockwait"]
            ELSE Body(IF UsesLock(s, c) THEN [s EXCEPT !.holder[c] = id] ELSE s, id)
       [] t.ph = "lockwait" ->     \* woken by a release: take the lock, leave the queue
            Body([s EXCEPT !.holder[c] = id, !.waiters[c] = Without(@, id)], id)
       [] t.ph = "w1" ->           \* tty: the write job has finished (or failed)
            IF failing THEN Release([s EXCEPT !.tasks[id].ph = "failed"], id)
            ELSE [s EXCEPT !.pend[c] = Append(@, <<id, "flush", FALSE>>), !.tasks[id].ph = "w2"]
       [] t.ph = "w2" ->           \* drain / flush has finished (or failed): leave `async with`
            Release([s EXCEPT !.tasks[id].ph = IF failing THEN "failed" ELSE "done"], id)
       [] OTHER -> s

-----------------------------------------------------------------------------
(* reader tasks *)
Registered(s, c) == c \in Range(s.clients)

Close(s, c) ==
  [s EXCEPT !.closed[c] = IF s.kind[c] = "tcp" THEN TRUE ELSE @,
            !.clients = Without(@, c), !.pol[c] = "gone", !.rst[c] = "done", !.inq[c] = <<>>, !.stuck[c] = FALSE]

\* router.process_message(message, sender = c) for the client message kinds used in the sessions
FanOut(s, sender, m) ==      \* a from_device message reaches every other registered client, in registration order
  LET RECURSIVE Go(_, _)
      Go(st, i) == IF i > Len(s.clients) THEN st
                   ELSE Go(IF s.clients[i] # sender THEN Route(st, s.clients[i], m) ELSE st, i + 1)
  IN Go(s, 1)

RECURSIVE ReadLoop(_, _)
ReadLoop(s, c) ==
  IF s.inq[c] = <<>> THEN [s EXCEPT !.rst[c] = "waiting"]
  ELSE LET it == Head(s.inq[c])[1]
           id == Head(s.inq[c])[2]
           s1 == [s EXCEPT !.inq[c] = Tail(@)]
       IN CASE it \in {"eof", "err"} -> Close(s1, c)
            [] it = "partial" -> ReadLoop([s1 EXCEPT !.stuck[c] = TRUE], c)
            [] it = "junk" \/ s1.stuck[c] -> ReadLoop(s1, c)
            [] it = "get"    -> ReadLoop(FanOut([s1 EXCEPT !.devlog = Append(@, <<c, "get">>)], c, id), c)
            [] it = "enable" -> ReadLoop([s1 EXCEPT !.pol[c] = IF Registered(s1, c) THEN "Also" ELSE @,
                                                    !.devlog = Append(@, <<c, "enable">>)], c)
            [] it = "new"    -> ReadLoop([s1 EXCEPT !.devlog = Append(@, <<c, "new">>)], c)
            [] it = "boom"   -> Close([s1 EXCEPT !.devlog = Append(@, <<c, "boom">>)], c)   \* the device raises while handling it
            [] OTHER         -> ReadLoop(s1, c)

\* StreamReader.read() raises a pending exception before looking at buffered data: if the peer's reset is already
\* known when the handler issues its FIRST read, the data received before it is lost (a later reset is only seen by
\* the read that follows the one woken by the data)
HasErr(q) == \E i \in DOMAIN q : q[i][1] = "err"
ReaderStep(s, c) ==
  CASE s.rst[c] = "new" ->
         LET s1 == IF s.kind[c] = "tcp" THEN [s EXCEPT !.clients = Append(@, c), !.pol[c] = "unset"] ELSE s IN
         IF s.kind[c] = "tcp" /\ HasErr(s.inq[c]) THEN Close(s1, c) ELSE ReadLoop(s1, c)
    [] s.rst[c] = "runnable" -> ReadLoop(s, c)
    [] OTHER -> s

-----------------------------------------------------------------------------
(* one event-loop iteration: the snapshot of ready handles, in order *)
RunEntry(s, e) ==
  IF e[1] = "reader" THEN ReaderStep(s, e[2])
  ELSE TaskStep(s, e[2], e[3])
RECURSIVE RunAll(_, _)
RunAll(s, es) == IF es = <<>> THEN s ELSE RunAll(RunEntry(s, Head(es)), Tail(es))
Norm3(e) == IF Len(e) = 2 THEN <<e[1], e[2], FALSE>> ELSE e
TickFn(s) == RunAll([s EXCEPT !.ready = <<>>], [i \in DOMAIN s.ready |-> Norm3(s.ready[i])])

-----------------------------------------------------------------------------
VARIABLE S
(* environment actions *)
Accept(c, k) ==
  /\ S.kind[c] = "none"              \* every connection is a new handler object: a reconnecting peer is a fresh id
  /\ S' = LET s1 == [S EXCEPT !.kind[c] = k, !.rst[c] = IF k = "cli" THEN "none" ELSE "new", !.inq[c] = <<>>,
                              !.closed[c] = FALSE, !.routed[c] = <<>>, !.wire[c] = <<>>,
                              !.holder[c] = 0, !.waiters[c] = <<>>, !.pend[c] = <<>>]
          IN IF k = "tty" THEN [s1 EXCEPT !.clients = Append(@, c), !.pol[c] = "unset", !.ready = Append(@, <<"reader", c>>)]
             ELSE IF k = "tcp" THEN [s1 EXCEPT !.ready = Append(@, <<"reader", c>>)]
             ELSE s1
Feed(c, it) ==
  /\ S.kind[c] \in {"tcp", "tty"} /\ S.rst[c] \in {"new", "waiting", "runnable"}
  /\ ~\E i \in DOMAIN S.inq[c] : S.inq[c][i][1] \in {"eof", "err"}          \* a peer sends nothing after it closed / reset
  /\ S' = LET s1 == [S EXCEPT !.inq[c] = Append(@, it)] IN
          IF S.rst[c] = "waiting" THEN [s1 EXCEPT !.rst[c] = "runnable", !.ready = Append(@, <<"reader", c>>)] ELSE s1
DeviceSend(id) ==             \* a registered driver publishes one message (id) through the router
  /\ S' = FanOut(S, "device", id)
ClientSend(c, id) ==          \* the client library sends one message on its connection to the server
  /\ S.kind[c] = "cli"
  /\ S' = Route(S, c, id)
Complete(c, i, fail) ==       \* the i-th outstanding awaitable of c completes (or fails)
  /\ i \in DOMAIN S.pend[c]
  /\ LET p == S.pend[c][i] IN
     S' = [S EXCEPT !.pend[c] = [j \in 1..(Len(@) - 1) |-> IF j < i THEN @[j] ELSE @[j + 1]],
                    !.wire[c] = IF p[2] = "write" /\ ~fail THEN Append(@, S.tasks[p[1]].m) ELSE @,
                    !.ready = Append(@, <<"task", p[1], fail>>)]
Tick == S.ready # <<>> /\ S' = TickFn(S)

Init == S = S0

-----------------------------------------------------------------------------
(* properties *)
IsPrefix(a, b) == Len(a) <= Len(b) /\ SubSeq(b, 1, Len(a)) = a
\* C19: whole messages, never interleaved, in routing order, on every connection, under every completion order.
\* (a failed write job is skipped: what does appear is still in order)
IsSubseqInOrder(a, b) ==
  LET RECURSIVE M(_, _)
      M(i, j) == IF i > Len(a) THEN TRUE ELSE IF j > Len(b) THEN FALSE
                 ELSE IF a[i] = b[j] THEN M(i + 1, j + 1) ELSE M(i, j + 1)
  IN M(1, 1)
WholeInOrder == \A c \in Conns : IsSubseqInOrder(S.wire[c], S.routed[c])
NoFailYet(c) == \A id \in DOMAIN S.tasks : S.tasks[id].c = c => S.tasks[id].ph # "failed"
PrefixWhenNoFailure == \A c \in Conns : NoFailYet(c) => IsPrefix(S.wire[c], S.routed[c])
\* at most one write in flight per connection (what the lock is for)
OneInFlight == \A c \in Conns : UsesLock(S, c) => Len(S.pend[c]) <= 1
\* C18: a connection that has ended is forgotten by the router together with its settings
CleanEnd == \A c \in Conns : S.rst[c] = "done" => (c \notin Range(S.clients) /\ S.pol[c] = "gone"
                                                    /\ (S.kind[c] = "tcp" => S.closed[c]))
PolicyOnlyForClients == \A c \in Conns : (S.pol[c] # "gone") <=> c \in Range(S.clients)
NoDuplicateClients == \A i, j \in DOMAIN S.clients : i # j => S.clients[i] # S.clients[j]
\* C18 (action form): no delivery is attempted to a connection after it ended; a reconnecting peer starts fresh
NoDeliveryAfterEnd == \A c \in Conns : (S.rst[c] = "done" /\ S'.rst[c] = "done") => S'.routed[c] = S.routed[c]
\* C18: every registered connection is handed every device message
OthersServed(id) == \A c \in Conns : c \in Range(S.clients) => S'.routed[c] = Append(S.routed[c], id)
=============================================================================
