------------------------------ MODULE IndiTypes ------------------------------
(* Protocol vocabulary shared by all modules: message kinds with their origin flags,
   the vocabularies of the constrained fields and the BLOB delivery matrix.
   Source of truth: indi/message/*.py (class attributes from_client / from_device)
   and the INDI protocol description quoted in the property statements. *)
EXTENDS Naturals, Sequences, FiniteSets

StateVocab      == {"Idle", "Ok", "Busy", "Alert"}
PermVocab       == {"ro", "wo", "rw"}
RuleVocab       == {"OneOfMany", "AtMostOne", "AnyOfMany"}
SwitchVocab     == {"On", "Off"}
BlobEnableVocab == {"Never", "Also", "Only"}

DefKinds == {"defTextVector", "defNumberVector", "defSwitchVector", "defLightVector", "defBLOBVector"}
SetKinds == {"setTextVector", "setNumberVector", "setSwitchVector", "setLightVector", "setBLOBVector"}
NewKinds == {"newTextVector", "newNumberVector", "newSwitchVector", "newBLOBVector"}

\* kinds a client originates; getProperties is both (drivers snoop on each other)
ClientKinds == NewKinds \cup {"getProperties", "enableBLOB", "pingReply"}
\* kinds a device originates
DeviceKinds == DefKinds \cup SetKinds \cup {"delProperty", "message", "pingRequest", "oneLight", "getProperties"}
AllKinds    == ClientKinds \cup DeviceKinds

FromClient(k) == k \in ClientKinds
FromDevice(k) == k \in DeviceKinds
\* device-bound kinds: handed to devices only, never forwarded to other clients
DeviceBound(k) == FromClient(k) /\ ~FromDevice(k)
\* the only kind that carries BLOB payload from a device
IsBlobUpdate(k) == k = "setBLOBVector"

\* The delivery matrix of the enableBLOB rule as the protocol states it
\* (policy "unset" is the default, Never).
Matrix(policy, isBlob) ==
  CASE policy \in {"unset", "Never"} -> ~isBlob
    [] policy = "Also"               -> TRUE
    [] policy = "Only"               -> isBlob
=============================================================================
