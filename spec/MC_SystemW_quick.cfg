SPECIFICATION Spec
CONSTANTS
  Vals = {"a", "b"}
  MaxOps = 2
  WriteWhole = FALSE
INVARIANT Converged
PROPERTY WriteExact
PROPERTY NoStaleOverwrite
