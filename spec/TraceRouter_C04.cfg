SPECIFICATION TraceSpec
CONSTANTS
  ClientIds = {"c1", "c2", "c3", "c4", "c5", "c6"}
  DevIds = {"d1", "d2", "d3", "d4", "d5"}
  Names = {"A", "B", "C", "D", "U", "AB", ""}
  NoName = "none"
  NoSender = "nobody"
  AsIs = FALSE
  Which = "C04"
CONSTRAINT Progress
POSTCONDITION Accepted
CHECK_DEADLOCK FALSE
