SPECIFICATION MCSpec
CONSTANTS
  AsIsLoopExit = FALSE
  MaxSegs = 3
  MaxCuts = 2
  Thresholds <- ThrQuick
  CatLimit = 12
INVARIANT Bounded
INVARIANT OnlyMessages
INVARIANT Retained
INVARIANT InOrder
INVARIANT AtMostOnce
INVARIANT LosslessOrderedPrompt
INVARIANT Recovers
INVARIANT Contract
