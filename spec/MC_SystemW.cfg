SPECIFICATION Spec
CONSTANTS
  Vals = {"a", "b"}
  MaxOps = 3
  WriteWhole = FALSE
INVARIANT Converged
PROPERTY WriteExact
PROPERTY NoStaleOverwrite
