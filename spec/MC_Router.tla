----------------------------- MODULE MC_Router -----------------------------
(* Bounded instance of Router for exhaustive checking (C04, C05). *)
EXTENDS Router
CONSTANT AcceptInit
AcceptQuick == [d \in DevIds |-> CASE d = "d1" -> "A" [] d = "d2" -> "B" [] OTHER -> "*"]
MCInit == InitWith(AcceptInit)
MCSpec == MCInit /\ [][Next]_vars
View == core      \* observation variables do not influence behaviour: keep them out of the fingerprint
P_ToDevices    == [][ToDevices]_vars
P_NoLeak       == [][NoLeak]_vars
P_FanOut       == [][FanOut]_vars
P_Independence == [][Independence]_vars
P_EnableTakes  == [][EnableTakesEffect]_vars
P_Forgotten    == [][Forgotten]_vars
P_Fresh        == [][Fresh]_vars
P_MsgKeeps     == [][MsgKeepsRegistry]_vars
\* reachability probes (anti-vacuity): each must be VIOLATED
Probe_BlobToOnly  == [][~(IsMsg /\ last'.k = "setBLOBVector" /\ \E c \in ClientIds : Pol(c, last'.n) = "Only" /\ Count(dlv', <<"cli", c>>) = 1)]_vars
Probe_AlsoNonBlob == [][~(IsMsg /\ last'.k = "setTextVector" /\ \E c \in ClientIds : Pol(c, last'.n) = "Also" /\ Count(dlv', <<"cli", c>>) = 1)]_vars
Probe_CatchAll    == [][~(IsMsg /\ last'.k = "newTextVector" /\ last'.n \in Names /\ \E d \in DevIds : accept[d] = "*" /\ Count(dlv', <<"dev", d>>) = 1)]_vars
=============================================================================
