SPECIFICATION TraceSpec
CONSTANTS
  Horizon = 12
  AsIsLastWins = FALSE
CONSTRAINT Progress
POSTCONDITION Accepted
CHECK_DEADLOCK FALSE
