------------------------------- MODULE System -------------------------------
(* The composed system at message level: one driver-side property (text) and one BLOB property of one device, the
   router's per-connection BLOB policy, and one network client whose two connections (control + BLOB) feed one mirror,
   over four FIFO channels.  This is the design-level model of C01 / C08: does the client's view converge to the
   device's true state under every interleaving of driver operations and channel deliveries?

   CrossFIFO   TRUE: the client consumes its two downstream channels in global send order (one physical ordering);
               FALSE: the two connections are scheduled independently (what TCP really guarantees)
   BlobFilter  TRUE: the BLOB connection's callback applies only setBLOBVector (repair of defect D19);
               FALSE: it applies everything it receives (the unrepaired client)

   Messages: <<"def", v>> / <<"del">> / <<"set", v>> for the text property, <<"bdef">> / <<"bset", b>> for the BLOB
   property, upstream <<"get">> and <<"enable", policy>>. *)
EXTENDS Naturals, Sequences, FiniteSets, TLC
CONSTANTS Vals, Blobs, MaxOps, CrossFIFO, BlobFilter
Conns == {"ctl", "blob"}
VARIABLES eval, enabled, bval,        \* device truth: text value, text property enabled, BLOB value ("none" = unset)
          policy,                     \* router: connection -> "Never" | "Only"
          down, up,                   \* channels: connection -> sequence of <<seq, msg>> / msg
          mirror, bmirror, bknown,    \* client view: text value or "none" (absent), BLOB value, BLOB property known
          known, shaken, ops, seq,
          lastb,                      \* the last BLOB published while the BLOB connection had policy Only and after the BLOB
                                      \* property's definition had been sent to the client (what the client is owed; a later definition resets it)
          bdefSent
vars == <<eval, enabled, bval, policy, down, up, mirror, bmirror, bknown, known, shaken, ops, seq, lastb, bdefSent>>

Init == /\ eval \in Vals /\ enabled \in BOOLEAN /\ bval = "none"
        /\ policy = [k \in Conns |-> "Never"]
        /\ down = [k \in Conns |-> <<>>] /\ up = [k \in Conns |-> <<>>]
        /\ mirror = "none" /\ bmirror = "none" /\ bknown = FALSE /\ known = FALSE /\ shaken = FALSE /\ ops = 0 /\ seq = 0
        /\ lastb = "none" /\ bdefSent = FALSE

\* Router fan-out of device messages: non-BLOB to connections whose policy is not Only, BLOB payload to Also / Only
Push(d, k, msgs, base) == d[k] \o [i \in 1..Len(msgs) |-> <<base + i, msgs[i]>>]
FanOut(msgs) == [k \in Conns |-> IF policy[k] # "Only" THEN Push(down, k, msgs, seq) ELSE down[k]]
FanBlob(msgs) == [k \in Conns |-> IF policy[k] = "Only" THEN Push(down, k, msgs, seq) ELSE down[k]]
DefMsgs == (IF enabled THEN << <<"def", eval>> >> ELSE << <<"del">> >>) \o << <<"bdef">> >>

DriverAssign(v) == /\ ops < MaxOps /\ v # eval /\ eval' = v /\ ops' = ops + 1
                   /\ IF enabled THEN down' = FanOut(<< <<"set", v>> >>) /\ seq' = seq + 1 ELSE UNCHANGED <<down, seq>>
                   /\ UNCHANGED <<enabled, bval, policy, up, mirror, bmirror, bknown, known, shaken, lastb, bdefSent>>
DriverEnable(b) == /\ ops < MaxOps /\ b # enabled /\ enabled' = b /\ ops' = ops + 1
                   /\ IF b THEN down' = FanOut(<< <<"def", eval>>, <<"set", eval>> >>) /\ seq' = seq + 2
                           ELSE down' = FanOut(<< <<"del">> >>) /\ seq' = seq + 1
                   /\ UNCHANGED <<eval, bval, policy, up, mirror, bmirror, bknown, known, shaken, lastb, bdefSent>>
DriverBlob(b) == /\ ops < MaxOps /\ bval' = b /\ ops' = ops + 1
                 /\ down' = FanBlob(<< <<"bset", b>> >>) /\ seq' = seq + 1
                 /\ lastb' = IF bdefSent /\ \E k \in Conns : policy[k] = "Only" THEN b ELSE lastb
                 /\ UNCHANGED <<eval, enabled, policy, up, mirror, bmirror, bknown, known, shaken, bdefSent>>
Handshake == /\ ~shaken /\ shaken' = TRUE /\ up' = [up EXCEPT !["ctl"] = Append(@, <<"get">>)]
             /\ UNCHANGED <<eval, enabled, bval, policy, down, mirror, bmirror, bknown, known, ops, seq, lastb, bdefSent>>
ServerRecv(k) == /\ up[k] # <<>>
                 /\ LET m == Head(up[k]) IN
                    /\ up' = [up EXCEPT ![k] = Tail(@)]
                    /\ IF m[1] = "get"
                       THEN down' = FanOut(DefMsgs) /\ seq' = seq + Len(DefMsgs) /\ bdefSent' = TRUE /\ lastb' = "none" /\ UNCHANGED policy
                       ELSE policy' = [policy EXCEPT ![k] = m[2]] /\ UNCHANGED <<down, seq, bdefSent, lastb>>
                 /\ UNCHANGED <<eval, enabled, bval, mirror, bmirror, bknown, known, shaken, ops>>
Oldest(k) == \A j \in Conns : IF down[j] = <<>> THEN TRUE ELSE Head(down[j])[1] >= Head(down[k])[1]
FirstSeen == IF ~known THEN [ctl |-> Append(up["ctl"], <<"enable", "Never">>), blob |-> Append(up["blob"], <<"enable", "Only">>)] ELSE up
ClientRecv(k) ==
  /\ down[k] # <<>> /\ (CrossFIFO => Oldest(k))
  /\ LET m == Head(down[k])[2] IN
     /\ down' = [down EXCEPT ![k] = Tail(@)]
     /\ IF BlobFilter /\ k = "blob" /\ m[1] # "bset"
        THEN UNCHANGED <<mirror, bmirror, bknown, known, up>>
        ELSE CASE m[1] = "def"  -> mirror' = m[2] /\ known' = TRUE /\ up' = FirstSeen /\ UNCHANGED <<bmirror, bknown>>
               [] m[1] = "bdef" -> bknown' = TRUE /\ bmirror' = "none" /\ known' = TRUE /\ up' = FirstSeen /\ UNCHANGED mirror
               [] m[1] = "set"  -> mirror' = (IF mirror # "none" THEN m[2] ELSE mirror) /\ UNCHANGED <<bmirror, bknown, known, up>>
               [] m[1] = "bset" -> bmirror' = (IF bknown THEN m[2] ELSE bmirror) /\ UNCHANGED <<mirror, bknown, known, up>>
               [] m[1] = "del"  -> mirror' = "none" /\ UNCHANGED <<bmirror, bknown, known, up>>
  /\ UNCHANGED <<eval, enabled, bval, policy, shaken, ops, seq, lastb, bdefSent>>
Next == \/ \E v \in Vals : DriverAssign(v)
        \/ \E b \in BOOLEAN : DriverEnable(b)
        \/ \E b \in Blobs : DriverBlob(b)
        \/ Handshake
        \/ \E k \in Conns : ServerRecv(k) \/ ClientRecv(k)
Spec == Init /\ [][Next]_vars

Quiescent == \A k \in Conns : down[k] = <<>> /\ up[k] = <<>>
\* C01: at quiescence a client that shook hands sees exactly the device's enabled property with its current value
Converged == (Quiescent /\ shaken) => mirror = (IF enabled THEN eval ELSE "none")
\* C08 (design level): at quiescence the client holds the last BLOB it was owed (published after its Only took effect
\* and after the definition had reached it); never a BLOB it was not sent
BlobConverged == (Quiescent /\ shaken /\ lastb # "none") => bmirror = lastb
BlobGenuine == bmirror \in {"none"} \cup Blobs
=============================================================================
