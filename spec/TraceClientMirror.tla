-------------------------- MODULE TraceClientMirror --------------------------
(* Batch trace validation for ClientMirror.tla.  TRACE_FILE: JSON array of traces (sequences of events)
     [o |-> "recv", m |-> message] | [o |-> "on", cb |-> callback] | [o |-> "rmid", id] | [o |-> "rmcrit", dev, vec, el, ty] | [o |-> "tick"]
     | [o |-> "edit", dev, vec, el, x] | [o |-> "submit", dev, vec]     (client writes, Which = "C06"; obs.sent = messages handed to the connection)
   each with obs |-> [ devs |-> <<names>>, vecs |-> << [dev, name, kind, st, els] >>, evs |-> << event >>,
                       calls |-> << <<callback id, event, late>> >>, ntasks, raised (BOOLEAN), alive (BOOLEAN: receive loop running) ]
   Which = "C15": the mirror equals the reference interpreter's (Recv) and nothing raised / the loop is alive.
   Which = "C16": events and callback invocations: equal to the model's AND, independently of the model, the chain / call
                  statements evaluated on the observed events themselves. *)
EXTENDS ClientMirror, Json, IOUtils
CONSTANT Which
VARIABLES tid, l, C, last
Traces == JsonDeserialize(IOEnv.TRACE_FILE)
N  == Len(Traces)
Tr == Traces[tid]
E  == Tr[l]
ASSUME \A t \in 1..N : TLCSet(t, 0)
TraceInit == tid \in 1..N /\ l = 1 /\ C = C0 /\ last = <<>>
Post == CASE E.o = "recv"   -> Recv(C, E.m)
          [] E.o = "on"     -> OnEvent(C, E.cb)
          [] E.o = "rmid"   -> RmById(C, E.id)
          [] E.o = "rmcb"   -> RmById(C, E.id)          \* removal by callback: each registered callback is its own function
          [] E.o = "rmcrit" -> RmByCriteria(C, E.dev, E.vec, E.el, E.ty)
          [] E.o = "tick"   -> RunTasks(C)
          [] E.o = "recv2"  -> LET C1 == Recv(C, E.m)  C2 == Recv(C1, E.m2)         \* one message on each of the client's two connections
                               IN [C2 EXCEPT !.evs = C1.evs \o @, !.calls = C1.calls \o @]
          [] E.o = "edit"   -> Edit(C, E.dev, E.vec, E.el, E.x)
          [] E.o = "submit" -> Submit(C, E.dev, E.vec)
          [] E.o = "recvbad" -> Fresh(C)        \* an ill-formed BLOB update (declared size # payload): rejected as a whole
CanonV(vs) == {[dev |-> vs[i].dev, name |-> vs[i].name, kind |-> vs[i].kind, st |-> vs[i].st, els |-> vs[i].els] : i \in DOMAIN vs}
CanonE(es) == [i \in DOMAIN es |-> Ev(es[i].ty, es[i].dev, es[i].vec, es[i].el, es[i].old, es[i].new)]
CanonC(cs) == [i \in DOMAIN cs |-> <<cs[i][1], Ev(cs[i][2].ty, cs[i][2].dev, cs[i][2].vec, cs[i][2].el, cs[i][2].old, cs[i][2].new), cs[i][3]>>]
ObsMirror == [vecs |-> [i \in DOMAIN E.obs.vecs |-> E.obs.vecs[i]]]
Hist == LET base == IF E.o \in {"recv", "recv2"} /\ E.m.t = "def" THEN ResetVec(last, E.m.dev, E.m.vec) ELSE last
        IN ChainStep(base, CanonE(E.obs.evs), 1)
MirrorOK(Q) == /\ CanonV(Q.vecs) = CanonV(E.obs.vecs)
               /\ Range(Q.devs) = Range(E.obs.devs)
               /\ (E.o # "recvbad" => ~E.obs.raised /\ E.obs.alive)      \* surviving ill-formed BLOBs is not part of the statement
\* the order in which the events of ONE message are raised (values before state, elements in which order) is not part of C16:
\* the model's events and calls are compared as bags; the order-sensitive statements are the chain and ExpectedCalls below,
\* evaluated on the observed order
BagOf(q, x) == Cardinality({i \in DOMAIN q : q[i] = x})
SameBag(a, b) == Len(a) = Len(b) /\ (\A i \in DOMAIN a : BagOf(a, a[i]) = BagOf(b, a[i]))
\* A plain callback may remove a LATER-registered one from inside a dispatch (cb.rm).  How many of the current message's events
\* the removed callback still sees depends on the order in which the events of one message are raised - which C16 leaves open.
\* So: callbacks that nobody removes during this step are compared exactly (per callback, in order); a callback that is being
\* removed may only have been called for events it accepts, each at most once.
RmTargets == {C.cbs[i].rm : i \in DOMAIN C.cbs} \ {0}
CallsOf(cs, id) == SelectSeq(cs, LAMBDA c : c[1] = id)
CbOf(id) == C.cbs[CHOOSE i \in DOMAIN C.cbs : C.cbs[i].id = id]
CallsOK(Q) ==
  IF RmTargets = {} \/ E.o # "recv" THEN SameBag(Q.calls, CanonC(E.obs.calls))
  ELSE LET oc == CanonC(E.obs.calls)
           want == ExpectedCalls(C.cbs, CanonE(E.obs.evs)) IN
       /\ \A i \in DOMAIN C.cbs : C.cbs[i].id \notin RmTargets /\ ~C.cbs[i].coro => CallsOf(oc, C.cbs[i].id) = CallsOf(want, C.cbs[i].id)
       /\ \A k \in DOMAIN oc : oc[k][1] \in RmTargets =>
              /\ \E i \in DOMAIN C.cbs : C.cbs[i].id = oc[k][1]
              /\ BagOf(CallsOf(want, oc[k][1]), oc[k]) >= BagOf(oc, oc[k])
       \* never after removal: once the removing callback has been invoked, the removed one is not invoked any more
       /\ \A i \in DOMAIN C.cbs : C.cbs[i].rm # 0 =>
              \A j \in DOMAIN oc : \A k \in DOMAIN oc : (j < k /\ oc[j][1] = C.cbs[i].id) => oc[k][1] # C.cbs[i].rm
EventsOK(Q) == /\ SameBag(Q.evs, CanonE(E.obs.evs))
               /\ CallsOK(Q)
               /\ (((\A i \in DOMAIN C.cbs : C.cbs[i].id \in RmTargets => ~C.cbs[i].coro) \/ E.o # "recv") /\ E.obs.exact_tasks
                      => Len(Q.tasks) = E.obs.ntasks)
               \* the statements of C16 on the observed events themselves
               /\ Hist[1]
               /\ LastIsCurrent(ObsMirror, Hist[2])
               /\ NoIdleEvents(ObsMirror, CanonE(E.obs.evs))
               /\ (E.o = "recv" /\ (\A i \in DOMAIN C.cbs : C.cbs[i].rm = 0) => CanonC(E.obs.calls) = ExpectedCalls(C.cbs, CanonE(E.obs.evs)))
               \* never after removal (a coroutine callback that was scheduled while registered may still run later)
               /\ \A i \in DOMAIN E.obs.calls : ~E.obs.calls[i][3] => E.obs.calls[i][1] \in {C.cbs[j].id : j \in DOMAIN C.cbs}
\* C06, client side: what a submit hands to the connection - one message for the addressed property listing exactly the
\* elements assigned since the last submit, with the assigned values; an assignment alone sends nothing and changes no mirrored value
CanonS(ms) == [i \in DOMAIN ms |-> [dev |-> ms[i].dev, vec |-> ms[i].vec, kind |-> ms[i].kind, els |-> [j \in DOMAIN ms[i].els |-> <<ms[i].els[j][1], ms[i].els[j][2]>>]]]
\* (a submit with nothing assigned writes nothing at the driver: whether an empty message is sent or none at all is not part of C06)
NonEmpty(ms) == SelectSeq(ms, LAMBDA m : m.els # <<>>)
SentOK(Q) == /\ Len(NonEmpty(Q.sent)) = Len(NonEmpty(CanonS(E.obs.sent)))
             /\ \A i \in DOMAIN NonEmpty(Q.sent) : LET a == NonEmpty(Q.sent)[i]  b == NonEmpty(CanonS(E.obs.sent))[i] IN
                   /\ a.dev = b.dev /\ a.vec = b.vec /\ a.kind = b.kind
                   /\ Len(a.els) = Len(b.els) /\ Range(a.els) = Range(b.els)       \* the order of the members is not part of C06
             /\ \A i \in DOMAIN E.obs.sent : E.o = "submit" /\ E.obs.sent[i].dev = E.dev /\ E.obs.sent[i].vec = E.vec
             /\ (E.o \in {"edit", "submit"} => E.obs.evs = <<>> /\ ~E.obs.raised)
DebugOn == "VERIF_DEBUG" \in DOMAIN IOEnv
Step == /\ l <= Len(Tr) /\ l' = l + 1 /\ UNCHANGED tid
        /\ C' = Post
        /\ (DebugOn => PrintT(<<"POST", l, [vecs |-> Post.vecs, devs |-> Post.devs, evs |-> Post.evs, calls |-> Post.calls, nt |-> Len(Post.tasks), cbs |-> Post.cbs,
                                            chain |-> Hist[1], cur |-> LastIsCurrent(ObsMirror, Hist[2]), idle |-> NoIdleEvents(ObsMirror, CanonE(E.obs.evs))]>>))
        /\ last' = Hist[2]
        /\ CASE Which = "C15" -> MirrorOK(C')
             [] Which = "C06" -> MirrorOK(C') /\ SentOK(C')
             [] OTHER -> MirrorOK(C') /\ EventsOK(C')
TraceSpec == TraceInit /\ [][Step]_<<tid, l, C, last>>
Progress == TLCSet(tid, IF TLCGet(tid) > l THEN TLCGet(tid) ELSE l)
Bad == {t \in 1..N : TLCGet(t) # Len(Traces[t]) + 1}
Accepted == /\ PrintT(<<"BATCH", N>>)
            /\ \A t \in Bad : PrintT(<<"REJECT", t, TLCGet(t)>>)
            /\ Bad = {}
=============================================================================
