SPECIFICATION TraceSpec
CONSTANTS
  Which = "C06"
  AllowOversize = FALSE
CONSTRAINT Progress
POSTCONDITION Accepted
CHECK_DEADLOCK FALSE
