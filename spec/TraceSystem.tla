----------------------------- MODULE TraceSystem -----------------------------
(* Convergence contract of System.tla (C01) and the BLOB delivery contract (C08) evaluated on observations of the real
   composed stack.  TRACE_FILE: JSON array of traces; an event is
     [ o (operation), quiet (BOOLEAN: pumping reached quiescence), mode ("fifo" | "free"), len, up (0/1), wirelen,
       errors |-> << texts of exceptions that escaped a task >>,
       truth  |-> << [dev, name, kind, st, label, group, els |-> << <<name, value, label>> >>] >>   (enabled vectors, enabled elements)
       views  |-> << [kind ("net" | "raw:<policy>" | "snoop"), scope |-> <<device or "*", name or "none">>, view |-> << vector records >>] >> ]
   Deviation AllowOversize (known finding D12): a BLOB message longer than the junk-recovery threshold is lost on a
   threshold-enabled link when it arrives in more than one read. *)
EXTENDS Integers, Sequences, FiniteSets, TLC, Json, IOUtils
CONSTANTS Which, AllowOversize
VARIABLES tid, l
Traces == JsonDeserialize(IOEnv.TRACE_FILE)
N  == Len(Traces)
Tr == Traces[tid]
E  == Tr[l]
ASSUME \A t \in 1..N : TLCSet(t, 0)
None == "none"
Threshold == 2048

Find(vs, dev, name) == IF \E i \in DOMAIN vs : vs[i].dev = dev /\ vs[i].name = name
                       THEN CHOOSE i \in DOMAIN vs : vs[i].dev = dev /\ vs[i].name = name ELSE 0
\* one vector as the client sees it versus the device's truth: state, metadata, exactly the enabled elements with their
\* values; a BLOB element may still be absent on the client (a definition carries no payload)
ElemOKx(kind, t, m, strict) == /\ t[1] = m[1] /\ t[3] = m[3]
                               /\ IF kind = "blob" /\ ~strict THEN m[2] \in {None, t[2]} ELSE m[2] = t[2]
ElemOK(kind, t, m) == ElemOKx(kind, t, m, FALSE)
\* (noblob: the client never enabled BLOBs, so by the protocol it receives no setBLOBVector at all: the state of a BLOB
\*  property is then unknowable for it, like its payload)
VecOKx(t, m, noblob) ==
               /\ t.kind = m.kind /\ (t.st = m.st \/ (noblob /\ t.kind = "blob")) /\ t.label = m.label /\ t.group = m.group
               /\ Len(t.els) = Len(m.els)
               /\ \A i \in DOMAIN t.els : ElemOK(t.kind, t.els[i], m.els[i])
VecOK(t, m) == VecOKx(t, m, FALSE)
\* C01: exactly the device's enabled properties, and no others
\* (Strict: the properties the last operation republished under global send order; their BLOBs must have arrived)
\*  and only for a client that already knew the device before the operation, i.e. whose enableBLOB for it had taken effect)
IsStrict(t, before) == /\ \E k \in DOMAIN E.strict : E.strict[k][1] = t.dev /\ E.strict[k][2] = t.name
                       /\ \E j \in DOMAIN before : before[j].dev = t.dev
StrictBlobOK(t, m, before) == IsStrict(t, before) => \A i \in DOMAIN t.els : i \in DOMAIN m.els => m.els[i][2] = t.els[i][2]
FullViewx(truth, view, before) ==
  /\ \A i \in DOMAIN truth : Find(view, truth[i].dev, truth[i].name) # 0 /\ VecOK(truth[i], view[Find(view, truth[i].dev, truth[i].name)])
                                /\ StrictBlobOK(truth[i], view[Find(view, truth[i].dev, truth[i].name)], before)
  /\ \A j \in DOMAIN view : Find(truth, view[j].dev, view[j].name) # 0
FullView(truth, view) == FullViewx(truth, view, <<>>)
\* a snooping client asked for one device (or one property): it has at least that, and whatever it has is true
ScopedView(truth, view, dev, name) ==
  LET InScope(d, n) == d = dev /\ (name = None \/ n = name) IN
  /\ \A i \in DOMAIN truth : InScope(truth[i].dev, truth[i].name) =>
        Find(view, truth[i].dev, truth[i].name) # 0 /\ VecOKx(truth[i], view[Find(view, truth[i].dev, truth[i].name)], TRUE)
  /\ \A j \in DOMAIN view : InScope(view[j].dev, view[j].name) => Find(truth, view[j].dev, view[j].name) # 0
C01OK == \A k \in DOMAIN E.views :
           LET w == E.views[k] IN
           IF w.kind = "snoop" THEN (w.scope[1] = "*mixed*" \/ ScopedView(E.truth, w.view, w.scope[1], w.scope[2]))
           ELSE FullViewx(E.truth, w.view, IF l > 1 /\ k \in DOMAIN Tr[l - 1].views /\ w.kind = "net" THEN Tr[l - 1].views[k].view ELSE <<>>)

(* C08: the deployment of the BLOB runs has vector IMG with elements frame (published by the driver, token "P") and thumb
   (uploaded by the client, token "Q") and a text vector NOTE *)
BlobOf(vs, el) == LET i == Find(vs, "CAM", "IMG") IN
                  IF i = 0 THEN "absent"
                  ELSE LET j == CHOOSE j \in DOMAIN vs[i].els : vs[i].els[j][1] = el IN vs[i].els[j][2]
TextOf(vs) == LET i == Find(vs, "CAM", "NOTE") IN IF i = 0 THEN "absent" ELSE vs[i].els[1][2]
AuxOf(vs) == LET i == Find(vs, "CAM", "AUX") IN IF i = 0 THEN "absent" ELSE vs[i].els[1][2]       \* a second, small BLOB property
Oversize == AllowOversize /\ \E i \in 1..l : Tr[i].wirelen > Threshold      \* sticky: what was lost stays lost
C08View(w) ==
  LET want == BlobOf(E.truth, "frame") IN
  CASE w.kind = "net"       -> /\ BlobOf(w.view, "frame") = want /\ TextOf(w.view) = TextOf(E.truth)      \* BLOB connection: threshold disabled
                               /\ AuxOf(w.view) = AuxOf(E.truth)
    [] w.kind = "raw:Also"  -> (BlobOf(w.view, "frame") = want \/ Oversize) /\ (TextOf(w.view) = TextOf(E.truth) \/ Oversize)
    [] w.kind = "raw:Only"  -> BlobOf(w.view, "frame") = want \/ Oversize
    [] OTHER                -> BlobOf(w.view, "frame") = None /\ TextOf(w.view) = TextOf(E.truth)     \* no payload without enableBLOB
C08OK == /\ \A k \in DOMAIN E.views : C08View(E.views[k])
         \* an uploaded BLOB reaches the driver identically (once uploaded, the driver's thumb is Q for the rest of the run)
         /\ ((\E i \in 1..l : Tr[i].up = 1) => (BlobOf(E.truth, "thumb") = "Q" \/ Oversize \/ (AllowOversize /\ \E i \in 1..l : Tr[i].up = 1 /\ Tr[i].wirelen > Threshold)))

(* C06 end to end: a client write changes exactly the addressed elements of the addressed property of the addressed device
   (switch siblings may follow the rule), to the values sent; afterwards the writer's own view shows them (C01OK) *)
Prev == Tr[l - 1]
ValOf(vs, dev, name, el) == LET i == Find(vs, dev, name) IN
                            IF i = 0 THEN "absent"
                            ELSE IF \E j \in DOMAIN vs[i].els : vs[i].els[j][1] = el
                                 THEN vs[i].els[CHOOSE j \in DOMAIN vs[i].els : vs[i].els[j][1] = el][4] ELSE "absent"     \* the exact value
Named(el) == \E k \in DOMAIN E.vals : E.vals[k][1] = el
LastVal(el) == LET I == {k \in DOMAIN E.vals : E.vals[k][1] = el} IN E.vals[CHOOSE k \in I : \A j \in I : j <= k][2]
C06OK == (E.o = "client-write" /\ l > 1) =>
           \A i \in DOMAIN E.truth : LET t == E.truth[i] IN
              \A j \in DOMAIN t.els : LET el == t.els[j][1]
                                          before == ValOf(Prev.truth, t.dev, t.name, el)
                                      IN IF t.dev = E.target[1] /\ t.name = E.target[2]
                                         THEN t.kind = "switch" \/ (IF Named(el) THEN t.els[j][4] = LastVal(el) ELSE t.els[j][4] = before)
                                         ELSE before = "absent" \/ t.els[j][4] = before
Step == /\ l <= Len(Tr) /\ l' = l + 1 /\ UNCHANGED tid
        /\ E.quiet                                  \* nothing hangs: pumping every link reaches quiescence
        /\ E.errors = <<>>                          \* no task died
        /\ CASE Which = "C01" -> C01OK [] Which = "C06" -> C06OK /\ C01OK [] OTHER -> C08OK
TraceSpec == tid \in 1..N /\ l = 1 /\ [][Step]_<<tid, l>>
Progress == TLCSet(tid, IF TLCGet(tid) > l THEN TLCGet(tid) ELSE l)
Bad == {t \in 1..N : TLCGet(t) # Len(Traces[t]) + 1}
Accepted == /\ PrintT(<<"BATCH", N>>)
            /\ \A t \in Bad : PrintT(<<"REJECT", t, TLCGet(t)>>)
            /\ Bad = {}
=============================================================================
