------------------------------- MODULE Device -------------------------------
(* indi/device: Driver, groups, vectors, elements, events (C06 C07 C09 C12 C14; used by C01 C08).

   A DEPLOYMENT (constant record, or read from a trace) describes the driver classes:
     D.vecs   sequence of vectors  [dev, name, kind, rule, grp, perm, elems : Seq(name), een : Seq(BOOLEAN)]
              kind in "text" "number" "switch" "light" "blob";  grp = index into D.grps;  een = element enabled flags
     D.grps   sequence of groups   [dev, name]
     D.hs     sequence of event handlers [v, e, ev : "W"|"C"|"R", coro : BOOLEAN, veto : BOOLEAN, refresh : value or NoRefresh]
              in invocation order (the order in which the driver attaches them)
   Values are opaque tokens (strings) except for switches ("On"/"Off") and lights (state words); "none" is Python's None.

   The state is one record S:
     val[v][e] element values,  vst[v] vector state,  ven[v] vector enabled flag,  gen[g] group enabled flag,
     tasks    pending coroutine handler invocations (FIFO, run by RunTask = later loop iterations)
     pub      messages handed to the router during the current operation, in order
     hlog     handler invocations during the current operation, in order:
              [h, ev, seen (element value when invoked), req (requested value for W), old, new (for C), late (ran as a task)]
     raised   the operation raised out of the public call

   Abstract published message: [t : "def"|"set"|"del", v, st, els : Seq(<<element name, value>>)].
   One operator per public entry point; each is written as the code performs it (loops over children / elements /
   handlers), so that the declarative properties at the end are a separate statement. *)
EXTENDS Integers, Sequences, FiniteSets, TLC

CONSTANTS NoRefresh,
          AsIsNoContain     \* TRUE: the unrepaired driver (D9): an unknown property / element raises out of message handling
None == "none"
On == "On"
Off == "Off"
StateWords == {"Idle", "Ok", "Busy", "Alert"}

Range(s) == {s[i] : i \in DOMAIN s}
IndexOf(s, x) == IF \E i \in DOMAIN s : s[i] = x THEN CHOOSE i \in DOMAIN s : s[i] = x ELSE 0

-----------------------------------------------------------------------------
(* helpers over a deployment D and state S *)
VEnabled(D, S, v) == S.ven[v] /\ S.gen[D.vecs[v].grp]
Hs(D, v, e, ev) == SelectSeq([i \in DOMAIN D.hs |-> i], LAMBDA i : D.hs[i].v = v /\ D.hs[i].e = e /\ D.hs[i].ev = ev)

Log(S, rec) == [S EXCEPT !.hlog = Append(@, rec)]

(* raise_event for Read on (v,e): plain handlers run now (and may refresh the value), coroutine handlers become tasks *)
RECURSIVE RunRead(_, _, _, _, _)
RunRead(D, S, v, e, hs) ==
  IF hs = <<>> THEN S
  ELSE LET h == Head(hs)
           H == D.hs[h]
       IN IF H.coro
          THEN RunRead(D, [S EXCEPT !.tasks = Append(@, [h |-> h, req |-> None, old |-> None, new |-> None])], v, e, Tail(hs))
          ELSE LET S1 == Log(S, [h |-> h, ev |-> "R", seen |-> S.val[v][e], req |-> None, old |-> None, new |-> None, late |-> FALSE])
                   S2 == IF H.refresh # NoRefresh THEN [S1 EXCEPT !.val[v][e] = H.refresh] ELSE S1
               IN RunRead(D, S2, v, e, Tail(hs))
\* element.value (the property getter): returns <<state after the Read handlers, value>>
ReadVal(D, S, v, e) == RunRead(D, S, v, e, Hs(D, v, e, "R"))

(* to_set_message / to_def_message: read every enabled element in order *)
RECURSIVE ReadAll(_, _, _, _, _)
ReadAll(D, S, v, i, acc) ==
  IF i > Len(D.vecs[v].elems) THEN <<S, acc>>
  ELSE IF ~D.vecs[v].een[i] THEN ReadAll(D, S, v, i + 1, acc)
  ELSE LET Sa == ReadVal(D, S, v, i)
           \* BLOB.to_set_message reads the value once to test it for None and three more times for payload, format and size
           S1 == IF D.vecs[v].kind = "blob" /\ Sa.val[v][i] # None THEN ReadVal(D, ReadVal(D, ReadVal(D, Sa, v, i), v, i), v, i) ELSE Sa
           x == S1.val[v][i]
       IN \* an unset BLOB is left out of a set message (acc collects <<name, value>>; the caller filters for "set")
          ReadAll(D, S1, v, i + 1, Append(acc, <<D.vecs[v].elems[i], x>>))
NotNoneBlob(D, v, p) == ~(D.vecs[v].kind = "blob" /\ p[2] = None)
PubSet(D, S, v) ==
  IF ~VEnabled(D, S, v) THEN S
  ELSE LET r == ReadAll(D, S, v, 1, <<>>) IN
       [r[1] EXCEPT !.pub = Append(@, [t |-> "set", v |-> v, st |-> r[1].vst[v],
                                       els |-> SelectSeq(r[2], LAMBDA p : NotNoneBlob(D, v, p))])]
EnabledNames(D, v) == SelectSeq(D.vecs[v].elems, LAMBDA n : D.vecs[v].een[IndexOf(D.vecs[v].elems, n)])
PubDef(D, S, v) ==
  IF ~VEnabled(D, S, v) THEN [S EXCEPT !.pub = Append(@, [t |-> "del", v |-> v, st |-> None, els |-> <<>>])]
  ELSE LET r == IF D.vecs[v].kind = "blob"            \* a defBLOB does not read the value at all
                THEN <<S, [k \in DOMAIN EnabledNames(D, v) |-> <<EnabledNames(D, v)[k], None>>]>>
                ELSE ReadAll(D, S, v, 1, <<>>) IN
       \* a defBLOB carries no payload (the content travels in setBLOBVector only)
       [r[1] EXCEPT !.pub = Append(@, [t |-> "def", v |-> v, st |-> r[1].vst[v],
                                       els |-> IF D.vecs[v].kind = "blob" THEN [k \in DOMAIN r[2] |-> <<r[2][k][1], None>>] ELSE r[2]])]

(* SwitchVector.apply_rule *)
OthersOn(S, v, e) == {j \in DOMAIN S.val[v] : j # e /\ S.val[v][j] = On}
ApplyRule(D, S, v, e, x) ==    \* returns <<state with the siblings adjusted, value to store>>
  IF x = On
  THEN IF D.vecs[v].rule \in {"AtMostOne", "OneOfMany"}
       THEN <<[S EXCEPT !.val[v] = [j \in DOMAIN @ |-> IF j # e /\ @[j] = On THEN Off ELSE @[j]]], On>>
       ELSE <<S, On>>
  ELSE IF D.vecs[v].rule = "OneOfMany" /\ OthersOn(S, v, e) = {} THEN <<S, On>> ELSE <<S, Off>>

(* what a value of the wrong Python type / vocabulary does *)
TypeOK(D, v, x) ==
  CASE D.vecs[v].kind = "switch" -> x \in {On, Off}
    [] D.vecs[v].kind = "light"  -> x \in StateWords
    [] OTHER -> TRUE

(* raise_event for Change *)
RECURSIVE RunChange(_, _, _, _, _, _, _)
RunChange(D, S, v, e, old, new, hs) ==
  IF hs = <<>> THEN S
  ELSE LET h == Head(hs) IN
       IF D.hs[h].coro
       THEN RunChange(D, [S EXCEPT !.tasks = Append(@, [h |-> h, req |-> None, old |-> old, new |-> new])], v, e, old, new, Tail(hs))
       ELSE RunChange(D, Log(S, [h |-> h, ev |-> "C", seen |-> S.val[v][e], req |-> None, old |-> old, new |-> new, late |-> FALSE]),
                      v, e, old, new, Tail(hs))

(* "the value actually changed": for BLOBs a newly stored payload object counts as a change (no byte comparison, DESIGN 7.2) *)
Changed(D, v, prev, cur) == IF D.vecs[v].kind = "blob" THEN ~(prev = None /\ cur = None) ELSE prev # cur

(* element.value = x  (the setter) *)
Assign(D, S, v, e, x) ==
  IF ~TypeOK(D, v, x) THEN [S EXCEPT !.raised = TRUE]
  ELSE LET prev == S.val[v][e]
           r == IF D.vecs[v].kind = "switch" THEN ApplyRule(D, S, v, e, x) ELSE <<S, x>>
           S1 == [r[1] EXCEPT !.val[v][e] = r[2]]
           S2 == PubSet(D, S1, v)
       IN IF Changed(D, v, prev, S2.val[v][e])
          THEN RunChange(D, S2, v, e, prev, S2.val[v][e], Hs(D, v, e, "C"))
          ELSE S2

(* the same assignment when handing the update to a client fails (the client's callback raises): the value is stored, the update was
   built and handed over, the exception leaves the setter before any Change event *)
AssignFail(D, S, v, e, x) ==
  IF ~TypeOK(D, v, x) THEN [S EXCEPT !.raised = TRUE]
  ELSE LET r == IF D.vecs[v].kind = "switch" THEN ApplyRule(D, S, v, e, x) ELSE <<S, x>>
           S1 == [r[1] EXCEPT !.val[v][e] = r[2]]
       IN IF VEnabled(D, S1, v) THEN [PubSet(D, S1, v) EXCEPT !.raised = TRUE] ELSE Assign(D, S, v, e, x)

(* raise_event for Write: returns <<state, vetoed>> *)
RECURSIVE RunWrite(_, _, _, _, _, _, _)
RunWrite(D, S, v, e, x, hs, vetoed) ==
  IF hs = <<>> THEN <<S, vetoed>>
  ELSE LET h == Head(hs) IN
       IF D.hs[h].coro
       THEN RunWrite(D, [S EXCEPT !.tasks = Append(@, [h |-> h, req |-> x, old |-> None, new |-> None])], v, e, x, Tail(hs), vetoed)
       ELSE RunWrite(D, Log(S, [h |-> h, ev |-> "W", seen |-> S.val[v][e], req |-> x, old |-> None, new |-> None, late |-> FALSE]),
                     v, e, x, Tail(hs), vetoed \/ D.hs[h].veto)
(* element.set_value(x) *)
SetValue(D, S, v, e, x) ==
  LET r == RunWrite(D, S, v, e, x, Hs(D, v, e, "W"), FALSE) IN
  IF r[2] THEN r[1] ELSE Assign(D, r[1], v, e, x)

(* Vector.from_new_message: children <<element name, value, convertible>> in order; unknown names and values that cannot
   be converted are skipped (contained), the others go through set_value *)
RECURSIVE ApplyChildren(_, _, _, _)
ApplyChildren(D, S, v, ch) ==
  IF ch = <<>> THEN S
  ELSE LET c == Head(ch)
           e == IndexOf(D.vecs[v].elems, c[1])
           \* numbers and BLOBs are converted BEFORE set_value (a failing conversion raises no Write event); switch / light /
           \* text values go through set_value as they are: the Write handlers see the raw text, the setter then rejects it
           early == D.vecs[v].kind \in {"number", "blob"}
       IN IF AsIsNoContain /\ (e = 0 \/ ~c[3]) THEN [S EXCEPT !.raised = TRUE]
          ELSE IF e = 0 \/ (early /\ ~c[3]) THEN ApplyChildren(D, S, v, Tail(ch))
          ELSE LET S1 == SetValue(D, S, v, e, c[2]) IN
               IF AsIsNoContain /\ S1.raised THEN S1
               ELSE ApplyChildren(D, [S1 EXCEPT !.raised = FALSE], v, Tail(ch))

VecOf(D, dev, name) == IF \E v \in DOMAIN D.vecs : D.vecs[v].dev = dev /\ D.vecs[v].name = name
                       THEN CHOOSE v \in DOMAIN D.vecs : D.vecs[v].dev = dev /\ D.vecs[v].name = name ELSE 0
Devs(D) == {D.vecs[v].dev : v \in DOMAIN D.vecs}
Accepts(dev, target) == target = None \/ target = dev

Fresh(S) == [S EXCEPT !.pub = <<>>, !.hlog = <<>>, !.raised = FALSE]

(* Router.process_message(newXXXVector) reaching the drivers: every driver accepting `target`; children as above *)
RECURSIVE NewVectorOn(_, _, _, _, _)
NewVectorOn(D, S, devs, vecname, ch) ==
  IF devs = <<>> THEN S
  ELSE LET v == VecOf(D, Head(devs), vecname) IN
       IF S.raised THEN S
       ELSE NewVectorOn(D, IF v = 0 THEN [S EXCEPT !.raised = AsIsNoContain] ELSE ApplyChildren(D, S, v, ch), Tail(devs), vecname, ch)
DevSeq(D, target) == SelectSeq(D.devorder, LAMBDA d : Accepts(d, target))
OpNewVector(D, S, target, vecname, ch) == NewVectorOn(D, Fresh(S), DevSeq(D, target), vecname, ch)

(* getProperties(device, name) *)
RECURSIVE DefAll(_, _, _)
DefAll(D, S, vs) == IF vs = <<>> THEN S ELSE DefAll(D, PubDef(D, S, Head(vs)), Tail(vs))
VecsOfDev(D, dev) == SelectSeq([i \in DOMAIN D.vecs |-> i], LAMBDA i : D.vecs[i].dev = dev)
RECURSIVE GetPropsOn(_, _, _, _)
GetPropsOn(D, S, devs, name) ==
  IF devs = <<>> THEN S
  ELSE LET d == Head(devs)
           vs == IF name = None THEN VecsOfDev(D, d)
                 ELSE IF VecOf(D, d, name) = 0 THEN <<>> ELSE <<VecOf(D, d, name)>>
       IN GetPropsOn(D, DefAll(D, S, vs), Tail(devs), name)
OpGetProperties(D, S, target, name) == GetPropsOn(D, Fresh(S), DevSeq(D, target), name)

(* driver-side operations *)
OpAssign(D, S, v, e, x)   == Assign(D, Fresh(S), v, e, x)
OpAssignFail(D, S, v, e, x) == AssignFail(D, Fresh(S), v, e, x)
OpSetValue(D, S, v, e, x) == SetValue(D, Fresh(S), v, e, x)
OpSetState(D, S, v, st)   == IF st \notin StateWords THEN [Fresh(S) EXCEPT !.raised = TRUE]
                             ELSE PubSet(D, [Fresh(S) EXCEPT !.vst[v] = st], v)
OpVecEnabled(D, S, v, b)  == PubSet(D, PubDef(D, [Fresh(S) EXCEPT !.ven[v] = b], v), v)
RECURSIVE GroupPub(_, _, _)
GroupPub(D, S, vs) == IF vs = <<>> THEN S ELSE GroupPub(D, PubSet(D, PubDef(D, S, Head(vs)), Head(vs)), Tail(vs))
OpGroupEnabled(D, S, g, b) ==
  GroupPub(D, [Fresh(S) EXCEPT !.gen[g] = b], SelectSeq([i \in DOMAIN D.vecs |-> i], LAMBDA i : D.vecs[i].grp = g))
(* selected_values = names (switch vectors): every element in order whose state differs is assigned *)
RECURSIVE SelLoop(_, _, _, _, _)
SelLoop(D, S, v, i, names) ==
  IF i > Len(D.vecs[v].elems) THEN S
  ELSE LET want == IF D.vecs[v].elems[i] \in names THEN On ELSE Off
           S1 == ReadVal(D, S, v, i)                   \* el.bool_value reads the value (Read handlers run)
       IN SelLoop(D, IF S1.val[v][i] # want THEN Assign(D, S1, v, i, want) ELSE S1, v, i + 1, names)
OpSetSelected(D, S, v, names) ==
  IF ~(names \subseteq Range(D.vecs[v].elems)) THEN [Fresh(S) EXCEPT !.raised = TRUE]
  ELSE SelLoop(D, Fresh(S), v, 1, names)
(* reading a value through the public attribute runs the Read handlers *)
OpRead(D, S, v, e) == ReadVal(D, Fresh(S), v, e)
\* Element.reset_value: the driver stores a value it obtained itself; nothing is published and no event is raised
OpReset(D, S, v, e, x) == [Fresh(S) EXCEPT !.val[v][e] = x]
(* a later loop iteration runs the oldest pending coroutine handler *)
OpRunTask(D, S) ==
  LET t == Head(S.tasks)
      H == D.hs[t.h]
      S0 == Fresh(S)
  IN [Log(S0, [h |-> t.h, ev |-> H.ev, seen |-> S0.val[H.v][H.e], req |-> t.req, old |-> t.old, new |-> t.new, late |-> TRUE])
      EXCEPT !.tasks = Tail(@)]

InitState(D) ==
  [val |-> D.val0, vst |-> D.vst0, ven |-> D.ven0, gen |-> D.gen0, tasks |-> <<>>, pub |-> <<>>, hlog |-> <<>>, raised |-> FALSE]

-----------------------------------------------------------------------------
(* Declarative properties.  They speak about one operation: pre-state P, post-state Q (with its pub / hlog). *)

(* C09 *)
OnCount(S, v) == Cardinality({j \in DOMAIN S.val[v] : S.val[v][j] = On})
RuleHolds(D, v, n) == CASE D.vecs[v].rule = "OneOfMany" -> n = 1 [] D.vecs[v].rule = "AtMostOne" -> n <= 1 [] OTHER -> TRUE
\* a switch vector that satisfies its rule keeps satisfying it (OneOfMany with no switch On: stays there until an On)
RulePreserved(D, P, Q) ==
  \A v \in DOMAIN D.vecs : D.vecs[v].kind = "switch" =>
     /\ (RuleHolds(D, v, OnCount(P, v)) => RuleHolds(D, v, OnCount(Q, v)))
     /\ (D.vecs[v].rule = "OneOfMany" /\ OnCount(P, v) = 0 => OnCount(Q, v) <= 1)
     /\ (D.vecs[v].rule = "AtMostOne" /\ OnCount(P, v) <= 1 => OnCount(Q, v) <= 1)
\* every published update shows a rule-conformant snapshot (if the vector satisfied its rule before)
PubCount(m) == Cardinality({i \in DOMAIN m.els : m.els[i][2] = On})
PubRuleOK(D, P, Q) ==
  \A i \in DOMAIN Q.pub : LET m == Q.pub[i] IN
     (m.t \in {"set", "def"} /\ D.vecs[m.v].kind = "switch" /\ RuleHolds(D, m.v, OnCount(P, m.v))
        /\ \A j \in DOMAIN D.vecs[m.v].een : D.vecs[m.v].een[j])
       => RuleHolds(D, m.v, PubCount(m))
\* a single assignment of On leaves that switch On; in an AnyOfMany vector it changes only the switch it names
AssignOnOK(D, P, Q, v, e, x) ==
  D.vecs[v].kind = "switch" /\ x \in {On, Off} =>
     /\ (x = On => Q.val[v][e] = On)
     /\ (D.vecs[v].rule = "AnyOfMany" => /\ Q.val[v][e] = x
                                         /\ \A j \in DOMAIN Q.val[v] : j # e => Q.val[v][j] = P.val[v][j])

\* selecting by name is "turning On": a single valid name leaves that switch On; in an AnyOfMany vector exactly the named switches are On
SelectOnOK(D, Q, v, names) ==
  (D.vecs[v].kind = "switch" /\ names \subseteq Range(D.vecs[v].elems)) =>
     /\ (Cardinality(names) = 1 => \A j \in DOMAIN Q.val[v] : D.vecs[v].elems[j] \in names => Q.val[v][j] = On)
     /\ (D.vecs[v].rule = "AnyOfMany" => \A j \in DOMAIN Q.val[v] : Q.val[v][j] = (IF D.vecs[v].elems[j] \in names THEN On ELSE Off))

(* C06 / C12: frame -- nothing but the addressed vector of the addressed devices changes; no state / enable flag changes *)
FrameOK(D, P, Q, target, vecname) ==
  /\ Q.vst = P.vst /\ Q.ven = P.ven /\ Q.gen = P.gen
  /\ \A v \in DOMAIN D.vecs : ~(Accepts(D.vecs[v].dev, target) /\ D.vecs[v].name = vecname) => Q.val[v] = P.val[v]
\* C06: a valid write (right kind, known names, convertible values, no handler vetoes) takes the submitted values,
\* subject only to the switch rule; elements not named keep their values (except switch siblings adjusted by the rule)
Last(ch, name) == LET I == {i \in DOMAIN ch : ch[i][1] = name} IN ch[CHOOSE i \in I : \A j \in I : j <= i][2]
TakenOK(D, P, Q, v, ch) ==
  \A e \in DOMAIN D.vecs[v].elems :
     LET name == D.vecs[v].elems[e] IN
     IF \E i \in DOMAIN ch : ch[i][1] = name
     THEN D.vecs[v].kind # "switch" => Q.val[v][e] = Last(ch, name)
     ELSE D.vecs[v].kind # "switch" => Q.val[v][e] = P.val[v][e]

\* C06 / C09 for ONE switch written or assigned in a vector that satisfied its rule: "switches On/Off, subject only to the property's
\* switch rule" - On stays On and (exclusive rules) turns the others Off; Off is Off unless it is the only On of a OneOfMany vector;
\* nothing else changes
SwitchOneOK(D, P, Q, v, e, x) ==
  (D.vecs[v].kind = "switch" /\ x \in {On, Off} /\ RuleHolds(D, v, OnCount(P, v))) =>
     LET othersOn == {j \in DOMAIN P.val[v] : j # e /\ P.val[v][j] = On}
         excl == D.vecs[v].rule \in {"OneOfMany", "AtMostOne"}
         want == IF x = On THEN On ELSE IF D.vecs[v].rule = "OneOfMany" /\ othersOn = {} THEN On ELSE Off
     IN /\ Q.val[v][e] = want
        /\ \A j \in DOMAIN Q.val[v] : j # e => Q.val[v][j] = (IF x = On /\ excl THEN Off ELSE P.val[v][j])

(* C07: the reply to getProperties *)
DefsOf(Q) == SelectSeq(Q.pub, LAMBDA m : m.t = "def")
ReplyExact(D, P, Q, target, name) ==
  LET want == {v \in DOMAIN D.vecs : Accepts(D.vecs[v].dev, target) /\ (name = None \/ D.vecs[v].name = name) /\ VEnabled(D, P, v)}
      defs == DefsOf(Q)
  IN /\ {defs[i].v : i \in DOMAIN defs} = want
     /\ \A i, j \in DOMAIN defs : i # j => defs[i].v # defs[j].v
     /\ \A i \in DOMAIN defs : LET m == defs[i] IN
          /\ m.st = Q.vst[m.v]
          /\ [k \in DOMAIN m.els |-> m.els[k][1]] = SelectSeq(D.vecs[m.v].elems, LAMBDA n : D.vecs[m.v].een[IndexOf(D.vecs[m.v].elems, n)])
          /\ \A k \in DOMAIN m.els : m.els[k][2] = IF D.vecs[m.v].kind = "blob" THEN None
                                                     ELSE Q.val[m.v][IndexOf(D.vecs[m.v].elems, m.els[k][1])]
     /\ \A i \in DOMAIN Q.pub : Q.pub[i].t # "set"

(* C14: the event contract of one write / assignment on element (v, e) with requested value x *)
Inv(Q, ev) == SelectSeq(Q.hlog, LAMBDA r : r.ev = ev)
WriteContract(D, P, Q, v, e, x, viaWrite) ==
  LET ws == Hs(D, v, e, "W")
      plainW == SelectSeq(ws, LAMBDA h : ~D.hs[h].coro)
      coroW == SelectSeq(ws, LAMBDA h : D.hs[h].coro)
      vetoed == viaWrite /\ \E i \in DOMAIN plainW : D.hs[plainW[i]].veto
      wlog == SelectSeq(Q.hlog, LAMBDA r : r.ev = "W")
      clog == SelectSeq(Q.hlog, LAMBDA r : r.ev = "C")
      sets == SelectSeq(Q.pub, LAMBDA m : m.t = "set" /\ m.v = v)
      newv == Q.val[v][e]
  IN /\ viaWrite => /\ [i \in DOMAIN wlog |-> wlog[i].h] = plainW          \* each plain Write handler exactly once, now,
                    /\ \A i \in DOMAIN wlog : wlog[i].req = x /\ wlog[i].seen = P.val[v][e] /\ ~wlog[i].late   \* before any state changes
                    /\ \A i \in DOMAIN coroW : \E k \in DOMAIN Q.tasks : Q.tasks[k].h = coroW[i] /\ Q.tasks[k].req = x
     /\ ~viaWrite => wlog = <<>> /\ \A k \in DOMAIN Q.tasks : k > Len(P.tasks) => D.hs[Q.tasks[k].h].ev # "W"
     /\ vetoed => Q.val = P.val /\ Q.pub = <<>> /\ clog = <<>>              \* a vetoed write changes and publishes nothing
     /\ (~vetoed /\ TypeOK(D, v, x)) =>
          /\ (VEnabled(D, P, v) => Len(sets) = 1)                            \* exactly one update, carrying the value
          /\ (~VEnabled(D, P, v) => Len(sets) = 0)
          /\ (VEnabled(D, P, v) /\ D.vecs[v].een[e] /\ ~(D.vecs[v].kind = "blob" /\ newv = None) =>
                 \E k \in DOMAIN sets[1].els : sets[1].els[k] = <<D.vecs[v].elems[e], newv>>)
          /\ LET plainC == SelectSeq(Hs(D, v, e, "C"), LAMBDA h : ~D.hs[h].coro)
                 coroC == SelectSeq(Hs(D, v, e, "C"), LAMBDA h : D.hs[h].coro)
                 mine == SelectSeq(clog, LAMBDA r : D.hs[r.h].v = v /\ D.hs[r.h].e = e)
             IN IF D.vecs[v].kind = "blob" /\ newv = P.val[v][e] THEN TRUE      \* re-storing an equal payload: free (DESIGN 7.2)
                ELSE IF newv # P.val[v][e]
                THEN /\ [i \in DOMAIN mine |-> mine[i].h] = plainC           \* Change handlers exactly once, with old and new
                     /\ \A i \in DOMAIN mine : mine[i].old = P.val[v][e] /\ mine[i].new = newv
                     /\ \A i \in DOMAIN coroC : \E k \in DOMAIN Q.tasks : Q.tasks[k].h = coroC[i] /\ Q.tasks[k].old = P.val[v][e] /\ Q.tasks[k].new = newv
                ELSE mine = <<>> /\ \A k \in DOMAIN Q.tasks : k > Len(P.tasks) => ~(D.hs[Q.tasks[k].h].ev = "C" /\ D.hs[Q.tasks[k].h].v = v /\ D.hs[Q.tasks[k].h].e = e)
=============================================================================
