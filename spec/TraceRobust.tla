---------------------------- MODULE TraceRobust ----------------------------
(* TRACE_FILE: JSON array of sessions; a session is a sequence of
     [k |-> "hostile" | "probe", raised, registered, closed, othersOK, changed |-> <<ids>>, allowed |-> <<ids>>, ndefs, expected] *)
EXTENDS Robust, TLC, Json, IOUtils
VARIABLES tid, l
Traces == JsonDeserialize(IOEnv.TRACE_FILE)
N  == Len(Traces)
Tr == Traces[tid]
Ev == Tr[l]
ASSUME \A t \in 1..N : TLCSet(t, 0)
SetOf(s) == {s[i] : i \in DOMAIN s}
Rec == [raised |-> Ev.raised, registered |-> Ev.registered, closed |-> Ev.closed, othersOK |-> Ev.othersOK,
        changed |-> SetOf(Ev.changed), allowed |-> SetOf(Ev.allowed), ndefs |-> Ev.ndefs, expected |-> Ev.expected]
TraceInit == tid \in 1..N /\ l = 1 /\ Init
Step == /\ l <= Len(Tr) /\ l' = l + 1 /\ UNCHANGED tid
        /\ IF Ev.k = "probe" THEN Probe(Rec) ELSE Hostile(Rec)
TraceSpec == TraceInit /\ [][Step]_<<open, served, tid, l>>
Progress == TLCSet(tid, IF TLCGet(tid) > l THEN TLCGet(tid) ELSE l)
Bad == {t \in 1..N : TLCGet(t) # Len(Traces[t]) + 1}
Accepted == /\ PrintT(<<"BATCH", N>>)
            /\ \A t \in Bad : PrintT(<<"REJECT", t, TLCGet(t)>>)
            /\ Bad = {}
=============================================================================
