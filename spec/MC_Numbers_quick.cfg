SPECIFICATION GSpec
CONSTANTS
  GridFracs = {3}
  MaxDeg = 360
  DenseFracs = {5, 6, 8, 9}
  DenseDeg = 1
INVARIANT InverseInv
INVARIANT InRangeInv
INVARIANT SelfOKInv
INVARIANT ParseBackInv
