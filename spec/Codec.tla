-------------------------------- MODULE Codec --------------------------------
(* indi/message/*.py as an abstract codec.

   Abstract message   [kind, attrs : name -> Val, text : Val, children : Seq(Part)]
   Abstract part      [tag,  attrs : name -> Val, text : Val]
   The XML infoset has the same shape (tag/kind, attributes, text, children), so ToXml is the
   identity on shape and only drops unset fields; FromXml is the parser: dispatch on the tag,
   required attributes, vocabulary checks, child kinds, number syntax, unknown attributes dropped,
   text trimmed, empty text = no value.

   Values are classes with identity, [c |-> class, s |-> id-or-word]; the harness owns the
   concretisation (several real strings per class) and the abstraction back.
   Declarative statements:  RoundTrip, Idempotent (C03), OnlyConformant (C13), EqIffSame (C20). *)
EXTENDS IndiTypes, TLC

NoVal == [c |-> "none", s |-> ""]
V(c, s) == [c |-> c, s |-> s]
W(word) == [c |-> "word", s |-> word]          \* a protocol word / plain ASCII token

\* classes of free text the round-trip statement quantifies over
RoundTripClasses == {"plain", "markup", "squote", "dquote", "bmp", "astral", "innerws", "newline"}
\* classes that exercise the normalisation (surrounding whitespace trimmed, empty = absent)
NormClasses      == {"padded", "empty", "blank"}
NumberClasses    == {"numint", "numdec", "numsexa", "numzero"}   \* numzero: the number 0 given as a Python int / float / "0"

IsEmptyText(v) == v.c \in {"none", "empty", "blank"}
Trim(v) == IF IsEmptyText(v) THEN NoVal
           ELSE IF v.c = "padded" THEN V("trimmed", v.s) ELSE v
IsNumber(v) == v.c \in NumberClasses
InVocab(v, vocab) == v.c = "word" /\ v.s \in vocab

Fail == [kind |-> "FAIL"]

-----------------------------------------------------------------------------
(* Schemas: what each constructor requires / keeps (everything else is **junk and dropped). *)
PartSchema ==
  [ defText   |-> [req |-> {"name"}, opt |-> {"label"}, text |-> "free",   vocab |-> {}],
    defNumber |-> [req |-> {"name", "format", "min", "max", "step"}, opt |-> {"label"}, text |-> "number", vocab |-> {}],
    defSwitch |-> [req |-> {"name"}, opt |-> {"label"}, text |-> "vocab",  vocab |-> SwitchVocab],
    defLight  |-> [req |-> {"name"}, opt |-> {"label"}, text |-> "vocab",  vocab |-> StateVocab],
    defBLOB   |-> [req |-> {"name"}, opt |-> {"label"}, text |-> "free",   vocab |-> {}],
    oneText   |-> [req |-> {"name"}, opt |-> {},        text |-> "free",   vocab |-> {}],
    oneNumber |-> [req |-> {"name"}, opt |-> {},        text |-> "number", vocab |-> {}],
    oneSwitch |-> [req |-> {"name"}, opt |-> {},        text |-> "vocab",  vocab |-> SwitchVocab],
    oneLight  |-> [req |-> {"name"}, opt |-> {},        text |-> "vocab",  vocab |-> StateVocab],
    oneBLOB   |-> [req |-> {"name", "size", "format"}, opt |-> {}, text |-> "free", vocab |-> {}] ]
PartTags == DOMAIN PartSchema

DefOpt == {"label", "group", "timestamp", "message", "timeout"}
SetOpt == {"timeout", "timestamp", "message"}
NoVocab == [a \in {} |-> {}]
StateOnly == [state |-> StateVocab]
StatePerm == [state |-> StateVocab, perm |-> PermVocab]

\* text: "none" (message text is junk and dropped), "blobvocab" (required, enableBLOB),
\*       "statevocab" (required, the message-level oneLight)
TextVocab(S) == IF S.text = "blobvocab" THEN BlobEnableVocab ELSE StateVocab
MsgSchema ==
  [ getProperties   |-> [req |-> {"version"}, opt |-> {"device", "name"}, vocab |-> NoVocab, child |-> "", text |-> "none"],
    enableBLOB      |-> [req |-> {"device"}, opt |-> {"name"}, vocab |-> NoVocab, child |-> "", text |-> "blobvocab"],
    oneLight        |-> [req |-> {"name"}, opt |-> {}, vocab |-> NoVocab, child |-> "", text |-> "statevocab"],
    delProperty     |-> [req |-> {"device"}, opt |-> {"name", "timestamp", "message"}, vocab |-> NoVocab, child |-> "", text |-> "none"],
    message         |-> [req |-> {}, opt |-> {"device", "timestamp", "message"}, vocab |-> NoVocab, child |-> "", text |-> "none"],
    pingRequest     |-> [req |-> {"uid"}, opt |-> {}, vocab |-> NoVocab, child |-> "", text |-> "none"],
    pingReply       |-> [req |-> {"uid"}, opt |-> {}, vocab |-> NoVocab, child |-> "", text |-> "none"],
    defTextVector   |-> [req |-> {"device", "name", "state", "perm"}, opt |-> DefOpt, vocab |-> StatePerm, child |-> "defText", text |-> "none"],
    defNumberVector |-> [req |-> {"device", "name", "state", "perm"}, opt |-> DefOpt, vocab |-> StatePerm, child |-> "defNumber", text |-> "none"],
    defSwitchVector |-> [req |-> {"device", "name", "state", "perm", "rule"}, opt |-> DefOpt,
                         vocab |-> [state |-> StateVocab, perm |-> PermVocab, rule |-> RuleVocab], child |-> "defSwitch", text |-> "none"],
    defLightVector  |-> [req |-> {"device", "name", "state"}, opt |-> DefOpt \ {"timeout"}, vocab |-> StateOnly, child |-> "defLight", text |-> "none"],
    defBLOBVector   |-> [req |-> {"device", "name", "state", "perm"}, opt |-> DefOpt, vocab |-> StatePerm, child |-> "defBLOB", text |-> "none"],
    setTextVector   |-> [req |-> {"device", "name", "state"}, opt |-> SetOpt, vocab |-> StateOnly, child |-> "oneText", text |-> "none"],
    setNumberVector |-> [req |-> {"device", "name", "state"}, opt |-> SetOpt, vocab |-> StateOnly, child |-> "oneNumber", text |-> "none"],
    setSwitchVector |-> [req |-> {"device", "name", "state"}, opt |-> SetOpt, vocab |-> StateOnly, child |-> "oneSwitch", text |-> "none"],
    setLightVector  |-> [req |-> {"device", "name", "state"}, opt |-> SetOpt, vocab |-> StateOnly, child |-> "oneLight", text |-> "none"],
    setBLOBVector   |-> [req |-> {"device", "name", "state"}, opt |-> SetOpt, vocab |-> StateOnly, child |-> "oneBLOB", text |-> "none"],
    newTextVector   |-> [req |-> {"device", "name"}, opt |-> {"timestamp"}, vocab |-> NoVocab, child |-> "oneText", text |-> "none"],
    newNumberVector |-> [req |-> {"device", "name"}, opt |-> {"timestamp"}, vocab |-> NoVocab, child |-> "oneNumber", text |-> "none"],
    newSwitchVector |-> [req |-> {"device", "name"}, opt |-> {"timestamp"}, vocab |-> NoVocab, child |-> "oneSwitch", text |-> "none"],
    newBLOBVector   |-> [req |-> {"device", "name"}, opt |-> {"timestamp"}, vocab |-> NoVocab, child |-> "oneBLOB", text |-> "none"] ]
MsgKinds == DOMAIN MsgSchema

RestrictTo(f, S) == [a \in DOMAIN f \cap S |-> f[a]]

-----------------------------------------------------------------------------
(* serialiser: the infoset of a message is the message itself (unset fields are not in DOMAIN attrs) *)
ToXml(m) == m

(* parser *)
ParsePart(px) ==
  IF px.tag \notin PartTags THEN Fail
  ELSE LET S == PartSchema[px.tag]
           t == Trim(px.text)
       IN IF ~(S.req \subseteq DOMAIN px.attrs) THEN Fail
          ELSE IF S.text = "vocab" /\ ~InVocab(t, S.vocab) THEN Fail
          ELSE IF S.text = "number" /\ t # NoVal /\ ~IsNumber(t) THEN Fail
          ELSE [tag |-> px.tag, attrs |-> RestrictTo(px.attrs, S.req \cup S.opt), text |-> t]

FromXml(x) ==
  IF x.kind \notin MsgKinds THEN Fail
  ELSE LET S  == MsgSchema[x.kind]
           t  == Trim(x.text)
           ps == [i \in DOMAIN x.children |-> ParsePart(x.children[i])]
       IN IF ~(S.req \subseteq DOMAIN x.attrs) THEN Fail
          ELSE IF \E a \in DOMAIN S.vocab : a \in DOMAIN x.attrs /\ ~InVocab(x.attrs[a], S.vocab[a]) THEN Fail
          ELSE IF S.text # "none" /\ ~InVocab(t, TextVocab(S)) THEN Fail
          ELSE IF \E i \in DOMAIN ps : ps[i] = Fail THEN Fail
          ELSE IF \E i \in DOMAIN ps : ps[i].tag # S.child THEN Fail
          ELSE [kind |-> x.kind, attrs |-> RestrictTo(x.attrs, S.req \cup S.opt),
                text |-> IF S.text = "none" THEN NoVal ELSE t, children |-> ps]

(* normal form the statement of C03 allows: text trimmed, empty text = absent *)
NormPart(p) == [p EXCEPT !.text = Trim(p.text)]
Norm(m) == [m EXCEPT !.text = Trim(m.text), !.children = [i \in DOMAIN m.children |-> NormPart(m.children[i])]]

(* C13: the declarative notion of a conformant message *)
PartConformant(p, childTag) ==
  /\ p.tag = childTag /\ p.tag \in PartTags
  /\ LET S == PartSchema[p.tag] IN
       /\ S.req \subseteq DOMAIN p.attrs
       /\ (S.text = "vocab" => InVocab(p.text, S.vocab))
       /\ (S.text = "number" /\ ~IsEmptyText(p.text) => IsNumber(p.text))
Conformant(m) ==
  /\ m.kind \in MsgKinds
  /\ LET S == MsgSchema[m.kind] IN
       /\ S.req \subseteq DOMAIN m.attrs
       /\ \A a \in DOMAIN S.vocab : a \in DOMAIN m.attrs => InVocab(m.attrs[a], S.vocab[a])
       /\ (S.text # "none" => InVocab(m.text, TextVocab(S)))
       /\ \A i \in DOMAIN m.children : PartConformant(m.children[i], S.child)

(* a valid message in the sense of C03's quantifier: what the constructors accept *)
ValidPart(p, childTag) == PartConformant(p, childTag) /\ DOMAIN p.attrs \subseteq (PartSchema[p.tag].req \cup PartSchema[p.tag].opt)
Valid(m) == /\ Conformant(m)
            /\ DOMAIN m.attrs \subseteq (MsgSchema[m.kind].req \cup MsgSchema[m.kind].opt)
            /\ (MsgSchema[m.kind].text = "none" => m.text = NoVal)

RoundTrip(m)      == FromXml(ToXml(m)) = Norm(m)
Idempotent(m)     == LET p == FromXml(ToXml(m)) IN p # Fail /\ FromXml(ToXml(p)) = p
OnlyConformant(x) == FromXml(x) # Fail => Conformant(FromXml(x))
=============================================================================
