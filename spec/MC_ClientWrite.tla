--------------------------- MODULE MC_ClientWrite ---------------------------
(* The client-side half of C06 on ClientMirror.tla: assignments, submits, updates and redefinitions in every order.
   `want` is the declarative history: per (device, property, element) the value assigned since the last submit / definition.
   P_SubmitExact: a submit sends one message listing exactly `want`; P_EditSilent: an assignment sends nothing and leaves the
   mirrored values alone; P_PendingSurvivesUpdate: an update from the server neither sends nor drops pending values. *)
EXTENDS ClientMirror
CONSTANTS MaxDepth
VARIABLES C, want, op
mcvars == <<C, want, op>>
Msgs ==
  { [t |-> "def", dev |-> "A", vec |-> v, kind |-> "text", st |-> "Ok", els |-> els] :
      v \in {"V", "W"}, els \in { <<<<"x", "a">>, <<"y", "b">>>>, <<<<"y", "b">>>> } }
  \cup { [t |-> "set", dev |-> "A", vec |-> "V", kind |-> "text", st |-> "Busy", els |-> els] : els \in { <<<<"x", "c">>>>, <<<<"y", "c">>, <<"x", "a">>>> } }
  \cup { [t |-> "del", dev |-> "A", vec |-> v, kind |-> None, st |-> None, els |-> <<>>] : v \in {"V", None} }
Keys == {"V", "W"} \X {"x", "y"}
Init == C = C0 /\ want = [k \in Keys |-> None] /\ op = [o |-> "init"]
Known(v, e) == LET k == FindVec(C, "A", v) IN k # 0 /\ ElIndex(C.vecs[k].els, e) # 0
Next ==
  \/ \E m \in Msgs : /\ C' = Recv(C, m) /\ op' = [o |-> "recv", m |-> m]
                     /\ want' = IF m.t = "def" THEN [k \in Keys |-> IF k[1] = m.vec THEN None ELSE want[k]]
                                ELSE IF m.t = "del" THEN [k \in Keys |-> IF m.vec \in {None, k[1]} THEN None ELSE want[k]]
                                ELSE want
  \/ \E v \in {"V", "W"}, e \in {"x", "y"}, x \in {"p", "q", None} :
        /\ C' = Edit(C, "A", v, e, x) /\ op' = [o |-> "edit", v |-> v, e |-> e]
        /\ want' = IF Known(v, e) THEN [want EXCEPT ![<<v, e>>] = x] ELSE want
  \/ \E v \in {"V", "W"} : /\ C' = Submit(C, "A", v) /\ op' = [o |-> "submit", v |-> v]
                           /\ want' = [k \in Keys |-> IF k[1] = v THEN None ELSE want[k]]
Spec == Init /\ [][Next]_mcvars
Depth == TLCGet("level") <= MaxDepth
View == <<C.vecs, want>>
P_SubmitExact == [][op'.o = "submit" /\ FindVec(C, "A", op'.v) # 0 =>
                      /\ Len(C'.sent) = 1 /\ C'.sent[1].dev = "A" /\ C'.sent[1].vec = op'.v
                      /\ Range(C'.sent[1].els) = {<<e, want[<<op'.v, e>>]>> : e \in {e \in {"x", "y"} : want[<<op'.v, e>>] # None}}
                      /\ Len(C'.sent[1].els) = Cardinality({e \in {"x", "y"} : want[<<op'.v, e>>] # None})]_mcvars
P_EditSilent == [][op'.o = "edit" => C'.sent = <<>> /\ C'.evs = <<>>
                                     /\ [i \in DOMAIN C'.vecs |-> C'.vecs[i].els] = [i \in DOMAIN C.vecs |-> C.vecs[i].els]]_mcvars
P_PendingSurvivesUpdate == [][op'.o = "recv" /\ op'.m.t = "set" => C'.sent = <<>> /\ [i \in DOMAIN C'.vecs |-> C'.vecs[i].pend] = [i \in DOMAIN C.vecs |-> C.vecs[i].pend]]_mcvars
\* anti-vacuity
Probe_TwoPending == [][~(op'.o = "submit" /\ Len(C'.sent) = 1 /\ Len(C'.sent[1].els) = 2)]_mcvars
Probe_SubmitEmpty == [][~(op'.o = "submit" /\ Len(C'.sent) = 1 /\ C'.sent[1].els = <<>>)]_mcvars
Probe_PendingLostByRedefinition == [][~(op'.o = "recv" /\ op'.m.t = "def" /\ \E k \in Keys : want[k] # None /\ want'[k] = None)]_mcvars
=============================================================================
