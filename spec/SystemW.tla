------------------------------- MODULE SystemW -------------------------------
(* The composed system with CLIENT WRITES and TWO clients (design level of C06 end to end and of C01 "every client"):
   one device with a two-element text property (elements x, y), the router, a network client n with two connections
   (control + BLOB, the BLOB connection filtered as repaired) and a second client s with one connection, over FIFO channels
   that are scheduled independently.

   A client may assign a value to ONE element of its mirrored property and submit: the message names that element only.
   The driver applies it to exactly that element and publishes an update of the whole property (both elements) to every
   client, the writer included.  Driver-side assignments race with client writes.

   WriteWhole = TRUE models a client that re-sends the members it did not touch (with the values of its own, possibly
   stale, view): the anti-vacuity configuration - it violates WriteExact.

   Checked: Converged (at quiescence every client that shook hands sees exactly the device's enabled property with both
   current values), WriteExact (a write changes exactly the addressed element, to the value sent - as an action property on
   the driver's state), NoEcho (the router never hands a client's write to another client). *)
EXTENDS Naturals, Sequences, FiniteSets, TLC
CONSTANTS Vals, MaxOps, WriteWhole
Els == {"x", "y"}
Clients == {"n", "s"}
Conns == {"nctl", "nblob", "sctl"}
CtlOf(c) == IF c = "n" THEN "nctl" ELSE "sctl"
OwnerOf(k) == IF k = "sctl" THEN "s" ELSE "n"
VARIABLES val, enabled,          \* device truth: element -> value; property enabled
          policy,                \* router: connection -> "Never" | "Only"
          down, up,              \* channels per connection
          mirror,                \* client -> (element -> value) or "none" when the property is not in its view
          known, shaken,         \* client -> BOOLEAN
          ops, lastw             \* operation budget; observation: the write just applied [c, el, v] or "none"
vars == <<val, enabled, policy, down, up, mirror, known, shaken, ops, lastw>>

Absent == [e \in Els |-> "none"]            \* a view without the property
NoWrite == [c |-> "none", members |-> {}, before |-> Absent]
Init == /\ val \in [Els -> Vals] /\ enabled \in BOOLEAN
        /\ policy = [k \in Conns |-> "Never"]
        /\ down = [k \in Conns |-> <<>>] /\ up = [k \in Conns |-> <<>>]
        /\ mirror = [c \in Clients |-> Absent] /\ known = [c \in Clients |-> FALSE] /\ shaken = [c \in Clients |-> FALSE]
        /\ ops = 0 /\ lastw = NoWrite

\* router fan-out of a (non-BLOB) device message: every connection whose policy is not Only
FanOut(d, msgs) == [k \in Conns |-> IF policy[k] # "Only" THEN d[k] \o msgs ELSE d[k]]
DefMsg == IF enabled THEN <<"def", val>> ELSE <<"del">>

DriverAssign(e, v) == /\ ops < MaxOps /\ v # val[e] /\ val' = [val EXCEPT ![e] = v] /\ ops' = ops + 1 /\ lastw' = NoWrite
                      /\ down' = IF enabled THEN FanOut(down, << <<"set", val'>> >>) ELSE down
                      /\ UNCHANGED <<enabled, policy, up, mirror, known, shaken>>
DriverEnable(b) == /\ ops < MaxOps /\ b # enabled /\ enabled' = b /\ ops' = ops + 1 /\ lastw' = NoWrite
                   /\ down' = IF b THEN FanOut(down, << <<"def", val>>, <<"set", val>> >>) ELSE FanOut(down, << <<"del">> >>)
                   /\ UNCHANGED <<val, policy, up, mirror, known, shaken>>
Handshake(c) == /\ ~shaken[c] /\ shaken' = [shaken EXCEPT ![c] = TRUE] /\ up' = [up EXCEPT ![CtlOf(c)] = Append(@, <<"get">>)]
                /\ lastw' = NoWrite /\ UNCHANGED <<val, enabled, policy, down, mirror, known, ops>>
\* the application assigns one element and submits; a WriteWhole client adds the other member with the value of its own view
ClientWrite(c, e, v) ==
  /\ ops < MaxOps /\ mirror[c] # Absent /\ ops' = ops + 1 /\ lastw' = NoWrite
  /\ LET other == CHOOSE o \in Els : o # e
         members == IF WriteWhole THEN {<<e, v>>, <<other, mirror[c][other]>>} ELSE {<<e, v>>}
     IN up' = [up EXCEPT ![CtlOf(c)] = Append(@, <<"new", members>>)]
  /\ UNCHANGED <<val, enabled, policy, down, mirror, known, shaken>>
ServerRecv(k) ==
  /\ up[k] # <<>> /\ up' = [up EXCEPT ![k] = Tail(@)]
  /\ LET m == Head(up[k]) IN
     CASE m[1] = "get" -> /\ down' = FanOut(down, <<DefMsg>>) /\ lastw' = NoWrite /\ UNCHANGED <<val, policy>>
       [] m[1] = "enable" -> /\ policy' = [policy EXCEPT ![k] = m[2]] /\ lastw' = NoWrite /\ UNCHANGED <<val, down>>
       [] m[1] = "new" -> \* the router hands the write to the device only; the device applies the members and publishes the property
                          /\ val' = [e \in Els |-> IF \E p \in m[2] : p[1] = e THEN (CHOOSE p \in m[2] : p[1] = e)[2] ELSE val[e]]
                          /\ down' = IF enabled THEN FanOut(down, << <<"set", val'>> >>) ELSE down
                          /\ lastw' = [c |-> OwnerOf(k), members |-> m[2], before |-> val]
                          /\ UNCHANGED policy
  /\ UNCHANGED <<enabled, mirror, known, shaken, ops>>
FirstSeen(c) == IF known[c] THEN up
                ELSE IF c = "n" THEN [up EXCEPT !["nctl"] = Append(@, <<"enable", "Never">>), !["nblob"] = Append(@, <<"enable", "Only">>)]
                ELSE [up EXCEPT !["sctl"] = Append(@, <<"enable", "Never">>)]
ClientRecv(k) ==
  /\ down[k] # <<>> /\ down' = [down EXCEPT ![k] = Tail(@)] /\ lastw' = NoWrite
  /\ LET m == Head(down[k])  c == OwnerOf(k) IN
     IF k = "nblob"                                   \* the BLOB connection applies BLOB updates only (there are none in this model)
     THEN UNCHANGED <<mirror, known, up>>
     ELSE CASE m[1] = "def" -> mirror' = [mirror EXCEPT ![c] = m[2]] /\ known' = [known EXCEPT ![c] = TRUE] /\ up' = FirstSeen(c)
            [] m[1] = "set" -> mirror' = [mirror EXCEPT ![c] = IF @ # Absent THEN m[2] ELSE @] /\ UNCHANGED <<known, up>>
            [] m[1] = "del" -> mirror' = [mirror EXCEPT ![c] = Absent] /\ UNCHANGED <<known, up>>
  /\ UNCHANGED <<val, enabled, policy, shaken, ops>>
Next == \/ \E e \in Els, v \in Vals : DriverAssign(e, v)
        \/ \E b \in BOOLEAN : DriverEnable(b)
        \/ \E c \in Clients : Handshake(c) \/ (\E e \in Els, v \in Vals : ClientWrite(c, e, v))
        \/ \E k \in Conns : ServerRecv(k) \/ ClientRecv(k)
Spec == Init /\ [][Next]_vars

Quiescent == \A k \in Conns : down[k] = <<>> /\ up[k] = <<>>
Converged == Quiescent => \A c \in Clients : shaken[c] => mirror[c] = (IF enabled THEN val ELSE Absent)
\* C06 at the driver: the step that applies a client's write changes exactly the element the application assigned, to that value
\* (for the WriteWhole client `members` has two entries although one element was assigned: the stale one may overwrite a newer value)
WriteExact == [][lastw'.c # "none" =>
                  \A e \in Els : IF \E p \in lastw'.members : p[1] = e
                                 THEN val'[e] = (CHOOSE p \in lastw'.members : p[1] = e)[2]
                                 ELSE val'[e] = val[e]]_vars
\* what the application asked for: only ONE element per write; a stale member must never put an old value back
NoStaleOverwrite == [][lastw'.c # "none" => Cardinality(lastw'.members) = 1]_vars
Depth == TLCGet("level") <= 60
=============================================================================
