SPECIFICATION LiveSpec
CONSTANTS
  Conns = {"a", "b"}
  AsIsTtyNoLock = FALSE
  Kinds <- KindsLive
  MaxMsgs = 2
  MaxFeeds = 0
  MaxAccepts = 2
  Items = {"get", "enable", "eof", "err", "boom", "junk", "partial", "new"}
  Stalled = {"a"}
PROPERTY Isolation
