----------------------------- MODULE BufferAlgo -----------------------------
(* Character-level model of indi/transport/buffer.py over a mini-XML alphabet

      "<"  ">"  "/"   letters "k" "c" "u" "x"   "n" (white space)

   "k" is a registered one-letter message tag, "c" a registered part tag, "u"/"x" other letters.
   Because the harness registers real classes K and C, the real Buffer can be run on the very same
   strings.  The buffer content is always a contiguous piece of the stream, data = stream[off+1 .. fed],
   so the model keeps the offset instead of a copy.

   One action per critical section:  Feed = append();  Start = the _cleanup_buffer() that opens
   process();  Loop = one iteration of the while loop (_find_message_in_buffer, then deliver + cleanup,
   or frontal cleanup beyond the threshold, or exit).

   AsIsLoopExit = TRUE gives the loop of the unrepaired code (defect D11): with the threshold disabled and
   no complete message it "delivers" nothing for ever. *)
EXTENDS Integers, Sequences, FiniteSets, TLC

CONSTANTS AsIsLoopExit
Disabled == -1            \* max_buffer_size_before_frontal_cleanup = None

Letters == {"k", "c", "u", "x"}

-----------------------------------------------------------------------------
(* mini XML: exactly what expat accepts on this alphabet.
   Elem(s, i): s[i] = "<" expected; result [ok, end (index after the element), name, text, kids]
   text = characters before the first child (what ElementTree calls .text); kids = direct children *)
NoElem == [ok |-> FALSE, end |-> 0, name |-> <<>>, text |-> <<>>, kids |-> <<>>]
RECURSIVE NameEnd(_, _)
NameEnd(s, i) == IF i <= Len(s) /\ s[i] \in Letters THEN NameEnd(s, i + 1) ELSE i
RECURSIVE SkipWs(_, _)
SkipWs(s, i) == IF i <= Len(s) /\ s[i] = "n" THEN SkipWs(s, i + 1) ELSE i
RECURSIVE Elem(_, _)
RECURSIVE Content(_, _, _, _, _)
Elem(s, i) ==
  IF i > Len(s) \/ s[i] # "<" THEN NoElem
  ELSE LET j == NameEnd(s, i + 1) IN
       IF j = i + 1 THEN NoElem                                   \* "<" not followed by a name
       ELSE LET name == SubSeq(s, i + 1, j - 1)
                w == SkipWs(s, j)
            IN IF w > Len(s) THEN NoElem
               ELSE IF s[w] = "/"
                    THEN IF w + 1 <= Len(s) /\ s[w + 1] = ">"
                         THEN [ok |-> TRUE, end |-> w + 2, name |-> name, text |-> <<>>, kids |-> <<>>]
                         ELSE NoElem
               ELSE IF s[w] = ">" THEN Content(s, w + 1, name, <<>>, <<>>)
               ELSE NoElem
\* content of element `name` from index i; text so far (only counted while no kid seen), kids so far
Content(s, i, name, text, kids) ==
  IF i > Len(s) THEN NoElem
  ELSE IF s[i] = "<"
       THEN IF i + 1 <= Len(s) /\ s[i + 1] = "/"
            THEN LET j == NameEnd(s, i + 2)
                     w == SkipWs(s, j)
                 IN IF w <= Len(s) /\ s[w] = ">" /\ SubSeq(s, i + 2, j - 1) = name
                    THEN [ok |-> TRUE, end |-> w + 1, name |-> name, text |-> text, kids |-> kids]
                    ELSE NoElem
            ELSE LET r == Elem(s, i) IN
                 IF ~r.ok THEN NoElem
                 ELSE Content(s, r.end, name, text, Append(kids, [name |-> r.name, text |-> r.text]))
       ELSE Content(s, i + 1, name, IF kids = <<>> THEN Append(text, s[i]) ELSE text, kids)

(* a whole string is a document: ws* element ws* *)
Doc(s) == LET r == Elem(s, SkipWs(s, 1)) IN
          IF r.ok /\ SkipWs(s, r.end) = Len(s) + 1 THEN r ELSE NoElem
(* IndiMessage.from_string succeeds: root is the registered tag, every child a registered part *)
IsMsg(s) == LET d == Doc(s) IN
            d.ok /\ d.name = <<"k">> /\ \A i \in DOMAIN d.kids : d.kids[i].name = <<"c">>

(* python str.strip() on the mini alphabet *)
RECURSIVE StripL(_)
StripL(t) == IF t # <<>> /\ Head(t) = "n" THEN StripL(Tail(t)) ELSE t
RECURSIVE StripR(_)
StripR(t) == IF t # <<>> /\ t[Len(t)] = "n" THEN StripR(SubSeq(t, 1, Len(t) - 1)) ELSE t
Strip(t) == StripR(StripL(t))
(* what the consumer can see of a delivered message: its value and its children's values *)
ContentOf(s) == LET d == Doc(s) IN
                [value |-> Strip(d.text), kids |-> [i \in DOMAIN d.kids |-> Strip(d.kids[i].text)]]

-----------------------------------------------------------------------------
(* string search on stream[lo..hi] *)
RECURSIVE FindLtK(_, _, _)        \* first p in lo..hi-1 with s[p] = "<", s[p+1] = "k"; 0 if none
FindLtK(s, lo, hi) == IF lo >= hi THEN 0
                      ELSE IF s[lo] = "<" /\ s[lo + 1] = "k" THEN lo ELSE FindLtK(s, lo + 1, hi)
RECURSIVE RFindLt(_, _, _)        \* last p in lo..hi with s[p] = "<"; 0 if none
RFindLt(s, lo, hi) == IF hi < lo THEN 0 ELSE IF s[hi] = "<" THEN hi ELSE RFindLt(s, lo, hi - 1)
RECURSIVE FindGt(_, _, _)         \* first p in lo..hi with s[p] = ">"; 0 if none
FindGt(s, lo, hi) == IF lo > hi THEN 0 ELSE IF s[lo] = ">" THEN lo ELSE FindGt(s, lo + 1, hi)

(* _cleanup_buffer on data = s[off+1..fed]: new offset *)
Cleanup(s, off, fed) ==
  LET p == FindLtK(s, off + 1, fed) IN
  IF p > 0 THEN p - 1
  ELSE LET q == RFindLt(s, off + 1, fed) IN IF q > 0 THEN q - 1 ELSE fed

(* _find_message_in_buffer: absolute index of the ">" that ends the first prefix of the buffer that is a
   complete well-formed element (0 if none).  Whether that element is a message is decided by IsMsg;
   a complete element that is not a message is junk and is skipped (fix of the "stuck behind an invalid
   element" defect, see known_findings.txt).
   python: end = 0; while end < len(data) - 1: end = data.find(">", end) ... *)
RECURSIVE FindDoc(_, _, _, _)
FindDoc(s, off, fed, end) ==        \* `end` = python's 0-based end within data
  IF ~(end < (fed - off) - 1) THEN 0
  ELSE LET g == FindGt(s, off + end + 1, fed) IN
       IF g = 0 THEN 0
       ELSE IF Doc(SubSeq(s, off + 1, g)).ok THEN g ELSE FindDoc(s, off, fed, g - off)

-----------------------------------------------------------------------------
VARIABLES stream,   \* the complete character stream (chosen in Init)
          cuts,     \* positions after which a piece ends
          fed,      \* characters appended so far
          off,      \* characters of the stream no longer in the buffer
          out,      \* delivered slices <<first, last>> (absolute positions), or <<0, 0>> for callback(None)
          thr,      \* max_buffer_size_before_frontal_cleanup of this buffer (Disabled = -1); never changes
          pc,       \* "idle" | "start" | "loop"
          iters     \* loop iterations of the current process() call
vars == <<stream, cuts, thr, fed, off, out, pc, iters>>

NextCut == IF \E c \in cuts : c > fed
           THEN CHOOSE c \in cuts : c > fed /\ \A c2 \in cuts : c2 > fed => c <= c2
           ELSE Len(stream)

Feed == /\ pc = "idle" /\ fed < Len(stream)
        /\ fed' = NextCut /\ pc' = "start" /\ iters' = 0
        /\ UNCHANGED <<stream, cuts, thr, off, out>>

Start == /\ pc = "start"
         /\ off' = Cleanup(stream, off, fed) /\ pc' = "loop"
         /\ UNCHANGED <<stream, cuts, thr, fed, out, iters>>

Loop == /\ pc = "loop"
        /\ IF fed - off = 0
           THEN pc' = "idle" /\ UNCHANGED <<off, out, iters>>
           ELSE LET e == FindDoc(stream, off, fed, 0) IN
                IF e = 0
                THEN IF thr # Disabled /\ fed - off > thr
                     THEN \* _cleanup_beginning: drop one character, then _cleanup_buffer
                          /\ off' = Cleanup(stream, off + 1, fed)
                          /\ iters' = iters + 1 /\ UNCHANGED <<out, pc>>
                     ELSE IF AsIsLoopExit /\ thr = Disabled
                          THEN \* unrepaired code (D11): data[None:] keeps everything, callback(None), loop again
                               /\ off' = Cleanup(stream, off, fed) /\ out' = Append(out, <<0, 0>>)
                               /\ iters' = iters + 1 /\ UNCHANGED pc
                          ELSE pc' = "idle" /\ UNCHANGED <<off, out, iters>>
                ELSE /\ off' = Cleanup(stream, e, fed)
                     /\ out' = IF IsMsg(SubSeq(stream, off + 1, e)) THEN Append(out, <<off + 1, e>>) ELSE out
                     /\ iters' = iters + 1 /\ UNCHANGED pc
        /\ UNCHANGED <<stream, cuts, thr, fed>>

Next == Feed \/ Start \/ Loop

(* the whole process() call as one function, used by the trace specification *)
RECURSIVE RunLoop(_, _, _, _, _, _)
RunLoop(s, T, o, fd, dl, fuel) ==     \* returns [off, dl (delivered slices), ok (terminated within the fuel)]
  IF fuel = 0 THEN [off |-> o, dl |-> dl, ok |-> FALSE]
  ELSE IF fd - o = 0 THEN [off |-> o, dl |-> dl, ok |-> TRUE]
  ELSE LET e == FindDoc(s, o, fd, 0) IN
       IF e = 0
       THEN IF T # Disabled /\ fd - o > T
            THEN RunLoop(s, T, Cleanup(s, o + 1, fd), fd, dl, fuel - 1)
            ELSE [off |-> o, dl |-> dl, ok |-> TRUE]
       ELSE RunLoop(s, T, Cleanup(s, e, fd), fd,
                    IF IsMsg(SubSeq(s, o + 1, e)) THEN Append(dl, <<o + 1, e>>) ELSE dl, fuel - 1)
RunCall(s, T, o, fd) == RunLoop(s, T, Cleanup(s, o, fd), fd, <<>>, 3 * fd + 3)

-----------------------------------------------------------------------------
(* Layout of a stream: where its valid messages are.  msgs = sequence of <<first, last>> of the message
   text proper (no surrounding white space), in stream order. *)
Slice(p) == SubSeq(stream, p[1], p[2])

(* C11 / C08: termination as a variant, only genuine messages, bounded retention *)
Bounded      == iters <= 3 * Len(stream) + 3
\* out only grows, so checking the newest entry in every state covers all of them
OnlyMessages == out # <<>> => out[Len(out)] # <<0, 0>> /\ IsMsg(Slice(out[Len(out)]))
Retained     == (pc = "idle" /\ thr # Disabled) => fed - off <= thr
InOrder      == Len(out) >= 2 => out[Len(out) - 1][2] < out[Len(out)][1]
=============================================================================
