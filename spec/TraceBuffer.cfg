SPECIFICATION TraceSpec
CONSTANTS
  AsIsLoopExit = FALSE
CONSTRAINT Progress
POSTCONDITION Accepted
CHECK_DEADLOCK FALSE
