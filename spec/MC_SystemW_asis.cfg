SPECIFICATION Spec
CONSTANTS
  Vals = {"a", "b"}
  MaxOps = 3
  WriteWhole = TRUE
INVARIANT Converged
PROPERTY WriteExact
PROPERTY NoStaleOverwrite
