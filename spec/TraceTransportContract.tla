---------------------- MODULE TraceTransportContract ----------------------
(* Contract-level statement of C18 / C19 on the same traces as TraceTransport.tla, using ONLY what the
   properties talk about (what was routed to whom, what appeared on each output stream, who is registered).
   It is the verdict of last resort: a trace that the implementation-shaped model Transport.tla cannot
   explain step by step (e.g. after a refactoring that changes when a write happens) is a violation only
   if this contract rejects it too.

   exp[c]   ids handed to connection c by the stimuli: a device message goes to every connection that was
            registered in the router when it was sent; a client send goes to that client connection
   relays   ids of getProperties fed by peers (relayed to the other clients at an unknown later instant)
   failed   connections on which a write / drain / flush was made to fail
   ended    connections whose peer ended them (EOF, reset, handler exception) *)
EXTENDS Integers, Sequences, FiniteSets, TLC, Json, IOUtils
CONSTANT Conns
VARIABLES tid, l, exp, relays, failed, ended, kinds, prevClients
vars == <<tid, l, exp, relays, failed, ended, kinds, prevClients>>
Traces == JsonDeserialize(IOEnv.TRACE_FILE)
N  == Len(Traces)
Tr == Traces[tid]
Ev == Tr[l]
ASSUME \A t \in 1..N : TLCSet(t, 0)
Range(s) == {s[i] : i \in DOMAIN s}
IsSubseqInOrder(a, b) ==
  LET RECURSIVE M(_, _)
      M(i, j) == IF i > Len(a) THEN TRUE ELSE IF j > Len(b) THEN FALSE
                 ELSE IF a[i] = b[j] THEN M(i + 1, j + 1) ELSE M(i, j + 1)
  IN M(1, 1)
IsPrefix(a, b) == Len(a) <= Len(b) /\ SubSeq(b, 1, Len(a)) = a

TraceInit == /\ tid \in 1..N /\ l = 1
             /\ exp = [c \in Conns |-> <<>>] /\ relays = {} /\ failed = {} /\ ended = {}
             /\ kinds = [c \in Conns |-> "none"] /\ prevClients = <<>>

Own(c) == SelectSeq(Ev.wire[c], LAMBDA x : x \notin relays')     \* what c wrote, relayed getProperties aside
Drained == Ev.ready = 0 /\ \A c \in Conns : Ev.npend[c] = 0
Step ==
  /\ l <= Len(Tr) /\ l' = l + 1 /\ UNCHANGED tid
  /\ Ev.raised = ""
  /\ exp' = CASE Ev.op = "dsend" -> [c \in Conns |-> IF c \in Range(prevClients) THEN Append(exp[c], Ev.id) ELSE exp[c]]
              [] Ev.op = "csend" -> [exp EXCEPT ![Ev.c] = Append(@, Ev.id)]
              [] OTHER -> exp
  /\ relays' = IF Ev.op = "feed" /\ Ev.it = "get" THEN relays \cup {Ev.id} ELSE relays
  /\ failed' = IF Ev.op = "complete" /\ Ev.fail = 1 THEN failed \cup {Ev.c} ELSE failed
  /\ ended' = IF Ev.op = "feed" /\ Ev.it \in {"eof", "err", "boom"} THEN ended \cup {Ev.c} ELSE ended
  /\ kinds' = IF Ev.op = "accept" THEN [kinds EXCEPT ![Ev.c] = Ev.k] ELSE kinds
  /\ prevClients' = Ev.clients
  \* C19: whole messages only (the splitter found nothing broken or foreign), never reordered
  /\ \A c \in Conns : \A i \in DOMAIN Ev.wire[c] : Ev.wire[c][i] >= 1
  /\ \A c \in Conns : IsSubseqInOrder(Own(c), exp'[c])
  /\ \A c \in Conns : c \notin failed' => IsPrefix(Own(c), exp'[c])
  \* C18: the registry is consistent at every step
  /\ \A i, j \in DOMAIN Ev.clients : i # j => Ev.clients[i] # Ev.clients[j]
  /\ \A c \in Conns : (Ev.pol[c] # "gone") => c \in Range(Ev.clients)
  \* at a drained point: every registered connection without an injected failure has written everything routed to it
  \* (C19 completeness, C18 "every other connection keeps receiving all device traffic"), and every ended connection
  \* has been closed and forgotten together with its settings (C18)
  /\ Drained =>
       /\ \A c \in Conns : (c \in Range(Ev.clients) \/ kinds'[c] = "cli") /\ c \notin failed' => Own(c) = exp'[c]
       /\ \A c \in ended' : c \notin Range(Ev.clients) /\ Ev.pol[c] = "gone" /\ (kinds'[c] = "tcp" => Ev.closed[c] = 1)
TraceSpec == TraceInit /\ [][Step]_vars
Progress == TLCSet(tid, IF TLCGet(tid) > l THEN TLCGet(tid) ELSE l)
Bad == {t \in 1..N : TLCGet(t) # Len(Traces[t]) + 1}
Accepted == /\ PrintT(<<"BATCH", N>>)
            /\ \A t \in Bad : PrintT(<<"REJECT", t, TLCGet(t)>>)
            /\ Bad = {}
=============================================================================
