SPECIFICATION TraceSpec
CONSTANTS
  Conns = {"a", "b", "c"}
CONSTRAINT Progress
POSTCONDITION Accepted
CHECK_DEADLOCK FALSE
