SPECIFICATION MCSpec
CONSTANTS
  Horizon = 12
  MaxArr = 3
  AsIsLastWins = FALSE
INVARIANT Outcome
INVARIANT NotBoth
INVARIANT PollSchedule
INVARIANT NoPollAfterDone
INVARIANT CallbackRemoved
