SPECIFICATION GenSpec
CONSTANTS
  NoRefresh = "norefresh"
  AsIsNoContain = FALSE
  MaxN = 0
  MaxDepth = 40
CONSTRAINT Depth
PROPERTY P_Robust
