SPECIFICATION TraceSpec
CONSTANTS
  NoRefresh = "norefresh"
  Which = "contract"
CONSTRAINT Progress
POSTCONDITION Accepted
CHECK_DEADLOCK FALSE
