SPECIFICATION TraceSpec
CONSTANTS
  NoRefresh = "norefresh"
  AsIsNoContain = FALSE
  Which = "contract"
CONSTRAINT Progress
POSTCONDITION Accepted
CHECK_DEADLOCK FALSE
