----------------------------- MODULE CodecCases -----------------------------
(* Case generators for C03 / C13 / C20 over Codec.tla's schema, the model-checking harness that
   checks the declarative theorems on every generated case, and the JSON export used to turn
   every case into one implementation test. *)
EXTENDS Codec, Sequences, FiniteSets, SequencesExt, FiniteSetsExt, Json, IOUtils

CONSTANTS Kinds,        \* the message kinds this run generates cases for (sharding)
          MaxCh,        \* children per message: 0..MaxCh
          Variants      \* 0..Variants-1 rotations of vocabulary members / child shapes

StateSeq  == <<"Idle", "Ok", "Busy", "Alert">>
PermSeq   == <<"ro", "wo", "rw">>
RuleSeq   == <<"OneOfMany", "AtMostOne", "AnyOfMany">>
SwitchSeq == <<"On", "Off">>
BlobSeq   == <<"Never", "Also", "Only">>
Pick(seq, r) == seq[(r % Len(seq)) + 1]
VocabSeq(a) == CASE a = "state" -> StateSeq [] a = "perm" -> PermSeq [] a = "rule" -> RuleSeq
ClassSeq == <<"plain", "markup", "squote", "dquote", "bmp", "astral", "innerws", "newline", "padded", "empty", "blank">>
\* (classes "longa" / "longb" are used by the equality cases only: long values sharing a 1500-character prefix)
NumSeq   == <<"numint", "numdec", "numsexa", "numzero">>
ClassIdx(c) == IF \E i \in 1..Len(ClassSeq) : ClassSeq[i] = c THEN CHOOSE i \in 1..Len(ClassSeq) : ClassSeq[i] = c ELSE 1
\* class used for attribute slots: the normalisation classes only apply to text
AttrClass(c) == IF c \in NormClasses THEN "plain" ELSE c

AttrVal(k, a, c, r, pre) ==
  IF a \in DOMAIN MsgSchema[k].vocab THEN W(Pick(VocabSeq(a), r)) ELSE V(AttrClass(c), pre \o a)

PartTextVal(tag, c, r, j) ==
  LET S == PartSchema[tag] IN
  CASE S.text = "vocab"  -> W(Pick(IF S.vocab = SwitchVocab THEN SwitchSeq ELSE StateSeq, r + j))
    [] S.text = "number" -> IF j = 2 /\ r = 0 /\ ClassIdx(c) % 3 = 0 THEN NoVal
                            ELSE LET cls == Pick(NumSeq, r + 2 * j + ClassIdx(c)) IN
                                 \* the number 0 is one value, whichever element carries it
                                 V(cls, IF cls = "numzero" THEN "zero" ELSE "n" \o ToString(j))
    [] S.text = "free"   -> IF (r + j) % 4 = 3 THEN NoVal
                            ELSE IF c = "longa" THEN V("longa", "t" \o ToString(j))
                            ELSE V(Pick(ClassSeq, ClassIdx(c) - 1 + j - 1), "t" \o ToString(j))
MkPart(tag, c, r, j) ==
  LET S == PartSchema[tag]
      as == S.req \cup (IF (r + j) % 2 = 0 THEN S.opt ELSE {})
  IN [tag |-> tag, attrs |-> [a \in as |-> V(AttrClass(c), "p" \o ToString(j) \o a)], text |-> PartTextVal(tag, c, r, j)]

MsgTextVal(k, r) ==
  CASE MsgSchema[k].text = "blobvocab"  -> W(Pick(BlobSeq, r))
    [] MsgSchema[k].text = "statevocab" -> W(Pick(StateSeq, r))
    [] OTHER -> NoVal
MkMsg(k, os, n, c, r) ==
  LET S == MsgSchema[k] IN
  [kind |-> k, attrs |-> [a \in S.req \cup os |-> AttrVal(k, a, c, r, "m")],
   text |-> MsgTextVal(k, r),
   children |-> [j \in 1..n |-> MkPart(S.child, c, r, j)]]

ChildCounts(k) == IF MsgSchema[k].child = "" THEN {0} ELSE 0..MaxCh

-----------------------------------------------------------------------------
(* C03: all valid messages of the bounded grammar *)
C03For(k) == { MkMsg(k, os, n, c, r) : os \in SUBSET MsgSchema[k].opt, n \in ChildCounts(k),
                                       c \in Range(ClassSeq), r \in 0..(Variants - 1) }
C03All == UNION { C03For(k) : k \in Kinds }
C03Case(m) == [t |-> "c03", m |-> m, expect |-> Norm(m)]

(* C20: pairs (m, perturbed m) with the structural verdict *)
C20Base == UNION { { MkMsg(k, os, n, c, 0) : os \in {MsgSchema[k].opt, {}}, n \in ChildCounts(k), c \in {"plain", "markup", "longa"} } : k \in Kinds }
OtherVal(k, a, v) == IF a \in DOMAIN MsgSchema[k].vocab
                     THEN W(CHOOSE w \in MsgSchema[k].vocab[a] : w # v.s) ELSE V("plain", "zz")
SameShapeKinds(k) == { k2 \in MsgKinds : k2 # k /\ MsgSchema[k2].req = MsgSchema[k].req /\ MsgSchema[k2].opt = MsgSchema[k].opt
                                          /\ MsgSchema[k2].text = MsgSchema[k].text }
DropAt(s, i) == [j \in 1..(Len(s) - 1) |-> IF j < i THEN s[j] ELSE s[j + 1]]
DupAt(s, i) == [j \in 1..(Len(s) + 1) |-> IF j <= i THEN s[j] ELSE s[j - 1]]
SwapAt(s, i) == [s EXCEPT ![i] = s[i + 1], ![i + 1] = s[i]]
Twin(m, i) == [m EXCEPT !.children[i + 1] = m.children[i]]     \* children i and i+1 made identical
Perturbations(m) ==
  LET k == m.kind
      S == MsgSchema[k]
      n == Len(m.children)
      P(name, b) == <<name, m, b>>
  IN   { P("copy", m) }
    \cup { P("attr-changed:" \o a, [m EXCEPT !.attrs[a] = OtherVal(k, a, m.attrs[a])]) : a \in DOMAIN m.attrs }
    \cup { P("attr-dropped:" \o a, [m EXCEPT !.attrs = RestrictTo(m.attrs, DOMAIN m.attrs \ {a})]) : a \in DOMAIN m.attrs \cap S.opt }
    \cup { P("attr-added:" \o a, [m EXCEPT !.attrs = [b \in DOMAIN m.attrs \cup {a} |-> IF b = a THEN V("plain", "added") ELSE m.attrs[b]]]) : a \in S.opt \ DOMAIN m.attrs }
    \* an optional attribute that is present with the number 0 (resp. with the empty string) against the same message without it
    \* (free-form attributes only: label, group, timeout, message, ...)
    \cup { <<"attr-zero-vs-absent:" \o a,
             [m EXCEPT !.attrs = [b \in DOMAIN m.attrs \cup {a} |-> IF b = a THEN V("numzero", "zero") ELSE m.attrs[b]]],
             [m EXCEPT !.attrs = RestrictTo(m.attrs, DOMAIN m.attrs \ {a})]>> : a \in S.opt \ DOMAIN S.vocab }
    \cup { <<"attr-empty-vs-absent:" \o a,
             [m EXCEPT !.attrs = [b \in DOMAIN m.attrs \cup {a} |-> IF b = a THEN V("empty", "e") ELSE m.attrs[b]]],
             [m EXCEPT !.attrs = RestrictTo(m.attrs, DOMAIN m.attrs \ {a})]>> : a \in S.opt \ DOMAIN S.vocab }
    \cup (IF S.text # "none" THEN { P("text-changed", [m EXCEPT !.text = W(CHOOSE w \in TextVocab(S) : w # m.text.s)]) } ELSE {})
    \cup { P("kind-changed:" \o k2, [m EXCEPT !.kind = k2]) : k2 \in IF n = 0 THEN SameShapeKinds(k) ELSE {} }
    \cup { P("child-name-changed:" \o ToString(i), [m EXCEPT !.children[i].attrs["name"] = V("plain", "othername")]) : i \in 1..n }
    \cup { P("child-text-changed:" \o ToString(i), [m EXCEPT !.children[i].text = PartTextVal(m.children[i].tag, "plain", 1, i + 1)]) : i \in 1..n }
    \cup { P("child-dropped:" \o ToString(i), [m EXCEPT !.children = DropAt(m.children, i)]) : i \in 1..n }
    \cup { P("child-duplicated:" \o ToString(i), [m EXCEPT !.children = DupAt(m.children, i)]) : i \in 1..n }
    \cup { P("child-swapped:" \o ToString(i), [m EXCEPT !.children = SwapAt(m.children, i)]) : i \in 1..(n - 1) }
    \* two long values that agree on a long prefix and differ only near the end
    \cup { P("attr-tail-changed:" \o a, [m EXCEPT !.attrs[a] = V("longb", m.attrs[a].s)]) : a \in {x \in DOMAIN m.attrs : m.attrs[x].c = "longa"} }
    \cup { P("child-text-tail-changed:" \o ToString(i), [m EXCEPT !.children[i].text = V("longb", m.children[i].text.s)]) :
             i \in {j \in 1..n : m.children[j].text.c = "longa"} }
    \cup { <<"twin-swapped:" \o ToString(i), Twin(m, i), [m EXCEPT !.children = SwapAt(Twin(m, i).children, i)]>> : i \in 1..(n - 1) }
C20All == UNION { { [t |-> "c20", a |-> p[2], b |-> p[3], p |-> p[1]] : p \in Perturbations(m) } : m \in C20Base }
\* structural verdict (EqIffSame): equal exactly when the abstract trees are the same
C20Expect(c) == c.a = c.b

(* C13: infosets with systematic perturbations of every constrained field *)
BadWords(vocab) == { W("indi.message.const"), W("State"), W("None"), W("__main__"), W("IndiMessage"), V("arbitrary", "x"), V("empty", "e"), V("blank", "b") }
                   \cup { W(w) : w \in {"on", "OFF", "ok", "IDLE", "never", "RW", "oneofmany"} }
                   \cup { W(w) : w \in (StateVocab \cup PermVocab \cup RuleVocab \cup SwitchVocab \cup BlobEnableVocab) \ vocab }
BadNumbers == { V("numbad", ToString(i)) : i \in 1..12 } \cup { V("plain", "x"), V("markup", "x"), V("bmp", "x") }
C13Base == UNION { { MkMsg(k, MsgSchema[k].opt, n, "plain", r) : n \in (ChildCounts(k) \cap {0, 2}), r \in 0..1 } : k \in Kinds }
SetText(m, i, v) == [m EXCEPT !.children[i].text = v]
C13Perturb(m) ==
  LET k == m.kind
      S == MsgSchema[k]
      n == Len(m.children)
  IN   { <<"valid", m>> }
    \cup UNION { { <<"vocab-attr:" \o a, [m EXCEPT !.attrs[a] = b]>> : b \in BadWords(S.vocab[a]) } : a \in DOMAIN S.vocab }
    \cup { <<"attr-removed:" \o a, [m EXCEPT !.attrs = RestrictTo(m.attrs, DOMAIN m.attrs \ {a})]>> : a \in S.req }
    \cup (IF S.text # "none" THEN { <<"vocab-text", [m EXCEPT !.text = b]>> : b \in BadWords(TextVocab(S)) \cup {NoVal} } ELSE {})
    \cup { <<"unknown-tag", [m EXCEPT !.kind = kk]>> : kk \in {"fooVector", "DefTextVector", "indiMessage", "defVector", "oneText"} }
    \cup { <<"child-kind:" \o tg, [m EXCEPT !.children[i] = MkPart(tg, "plain", 0, i)]>> : tg \in PartTags \ {S.child}, i \in 1..(IF n > 0 THEN 1 ELSE 0) }
    \cup { <<"child-unknown-tag", [m EXCEPT !.children[i].tag = "oneFoo"]>> : i \in 1..(IF n > 0 THEN 1 ELSE 0) }
    \cup { <<"child-attr-removed:" \o a, [m EXCEPT !.children[i].attrs = RestrictTo(m.children[i].attrs, DOMAIN m.children[i].attrs \ {a})]>> :
             a \in (IF n > 0 THEN PartSchema[S.child].req ELSE {}), i \in 1..n }
    \cup { <<"child-vocab-text", SetText(m, i, b)>> :
             b \in (IF n > 0 /\ PartSchema[S.child].text = "vocab" THEN BadWords(PartSchema[S.child].vocab) \cup {NoVal} ELSE {}), i \in 1..n }
    \cup { <<"child-number-text", SetText(m, i, b)>> :
             b \in (IF n > 0 /\ PartSchema[S.child].text = "number" THEN BadNumbers ELSE {}), i \in 1..n }
C13All == UNION { { [t |-> "c13", x |-> p[2], p |-> p[1], specAccepts |-> FromXml(p[2]) # Fail] : p \in C13Perturb(m) } : m \in C13Base }

-----------------------------------------------------------------------------
(* model-checking harness: one initial state per case, theorems as invariants *)
VARIABLE case
AllCases == { C03Case(m) : m \in C03All } \cup C20All \cup C13All
CasesInit == case \in AllCases
CasesSpec == CasesInit /\ [][UNCHANGED case]_case

ValidInv       == case.t = "c03" => Valid(case.m)
RoundTripInv   == case.t = "c03" => RoundTrip(case.m)
IdempotentInv  == case.t = "c03" => Idempotent(case.m)
ExpectNormInv  == case.t = "c03" => (\A i \in DOMAIN case.expect.children : case.expect.children[i].text.c \notin NormClasses) /\ case.expect.text.c \notin NormClasses
ConformantInv  == case.t = "c13" => OnlyConformant(case.x)
C13RejectsInv  == case.t = "c13" /\ case.p # "valid" /\ ~Conformant(case.x) => FromXml(case.x) = Fail
C13ValidInv    == case.t = "c13" /\ case.p = "valid" => FromXml(case.x) # Fail
\* EqIffSame on the model: two valid messages are identified by the codec exactly when they are the same tree
EqIffSameInv   == case.t = "c20" /\ Valid(case.a) /\ Valid(case.b) =>
                    ((FromXml(ToXml(case.a)) = FromXml(ToXml(case.b))) <=> (Norm(case.a) = Norm(case.b)))

(* export: evaluated once at start-up; the harness always sets OUT_DIR *)
ASSUME /\ JsonSerialize(IOEnv.OUT_DIR \o "/c03.json", SetToSeq({ C03Case(m) : m \in C03All }))
          /\ JsonSerialize(IOEnv.OUT_DIR \o "/c20.json", SetToSeq({ [c EXCEPT !.t = IF C20Expect(c) THEN "eq" ELSE "ne"] : c \in C20All }))
          /\ JsonSerialize(IOEnv.OUT_DIR \o "/c13.json", SetToSeq(C13All))
=============================================================================
