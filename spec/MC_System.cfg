SPECIFICATION Spec
CONSTANTS
  Vals = {"a", "b"}
  Blobs = {"B1", "B2"}
  MaxOps = 4
  CrossFIFO = FALSE
  BlobFilter = TRUE
INVARIANT Converged
INVARIANT BlobGenuine
