---------------------------- MODULE TraceBuffer ----------------------------
(* Batch trace validation for BufferAlgo.tla on the mini alphabet.
   TRACE_FILE: JSON array of traces
     [ stream |-> <<chars>>, thr |-> Int (-1 = disabled),
       ev |-> << [fed |-> characters appended so far, after this append,
                  dl  |-> contents of the messages delivered by the process() call, in order:
                          [value |-> <<chars>>, kids |-> << <<chars>>, ... >>],
                  dlen |-> len(buffer.data) after the call, raised |-> "" or exception text], ... >> ]
   Each event must be explained by one Feed + complete process() call of the model: same number of deliveries,
   identical content, same retained length; plus Retained and termination within the variant bound. *)
EXTENDS BufferAlgo, Json, IOUtils
VARIABLES tid, l
Traces == JsonDeserialize(IOEnv.TRACE_FILE)
N  == Len(Traces)
Tr == Traces[tid]
Ev == Tr.ev[l]
ASSUME \A t \in 1..N : TLCSet(t, 0)

TraceInit == /\ tid \in 1..N /\ l = 1
             /\ stream = Tr.stream /\ cuts = {} /\ thr = Tr.thr
             /\ fed = 0 /\ off = 0 /\ out = <<>> /\ pc = "idle" /\ iters = 0

Step == /\ l <= Len(Tr.ev)
        /\ l' = l + 1 /\ UNCHANGED <<tid, stream, cuts, thr, pc, iters>>
        /\ Ev.raised = ""
        /\ Ev.fed > fed /\ Ev.fed <= Len(stream)
        /\ LET call == RunCall(stream, thr, off, Ev.fed) IN
             /\ call.ok
             /\ Len(call.dl) = Len(Ev.dl)
             /\ \A i \in DOMAIN call.dl :
                   LET c == ContentOf(SubSeq(stream, call.dl[i][1], call.dl[i][2])) IN
                   c.value = Ev.dl[i].value /\ c.kids = Ev.dl[i].kids
             /\ Ev.fed - call.off = Ev.dlen
             /\ (thr # Disabled => Ev.dlen <= thr)
             /\ fed' = Ev.fed /\ off' = call.off /\ out' = out \o call.dl

TraceSpec == TraceInit /\ [][Step]_<<vars, tid, l>>
Progress == TLCSet(tid, IF TLCGet(tid) > l THEN TLCGet(tid) ELSE l)
Bad == {t \in 1..N : TLCGet(t) # Len(Traces[t].ev) + 1}
Accepted == /\ PrintT(<<"BATCH", N>>)
            /\ \A t \in Bad : PrintT(<<"REJECT", t, TLCGet(t)>>)
            /\ Bad = {}
=============================================================================
