SPECIFICATION MCSpec
CONSTANTS
  AsIsLoopExit = TRUE
  MaxSegs = 2
  MaxCuts = 2
  Thresholds <- ThrQuick
  CatLimit = 12
INVARIANT OnlyMessages
INVARIANT Bounded
