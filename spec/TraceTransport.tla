--------------------------- MODULE TraceTransport ---------------------------
(* Batch trace validation for Transport.tla.
   TRACE_FILE: JSON array of traces; a trace is a sequence of events
     [op |-> "accept", c, k] | [op |-> "feed", c, it, id] | [op |-> "dsend", id] | [op |-> "csend", c, id]
     | [op |-> "complete", c, i, fail (0/1)] | [op |-> "tick"]
   each with the projection of the real objects after the step:
     wire   |-> [c |-> <<ids>>]      what the independent splitter reads on c's output stream
     npend  |-> [c |-> n]            outstanding awaitables of c's writer / stdout
     clients|-> <<c, ...>>           router.clients (as connection ids)
     pol    |-> [c |-> "gone"|"unset"|"Also"]
     closed |-> [c |-> 0/1]          writer closed
     ready  |-> 0/1                  the loop has ready handles
     ndev   |-> n                    messages the recording device has received
     raised |-> ""                   exception that escaped the harness step *)
EXTENDS Transport, Json, IOUtils
VARIABLES tid, l
Traces == JsonDeserialize(IOEnv.TRACE_FILE)
N  == Len(Traces)
Tr == Traces[tid]
Ev == Tr[l]
ASSUME \A t \in 1..N : TLCSet(t, 0)
TraceInit == tid \in 1..N /\ l = 1 /\ Init

ObsOK == /\ \A c \in Conns : S'.wire[c] = Ev.wire[c]
         /\ \A c \in Conns : Len(S'.pend[c]) = Ev.npend[c]
         /\ S'.clients = Ev.clients
         /\ \A c \in Conns : S'.pol[c] = Ev.pol[c]
         /\ \A c \in Conns : S'.closed[c] = (Ev.closed[c] = 1)
         /\ (S'.ready # <<>>) = (Ev.ready = 1)
         /\ Len(S'.devlog) = Ev.ndev
PropsOK == LET T == S' IN
           /\ \A c \in Conns : IsSubseqInOrder(T.wire[c], T.routed[c])
           /\ \A c \in Conns : (\A id \in DOMAIN T.tasks : T.tasks[id].c = c => T.tasks[id].ph # "failed") => IsPrefix(T.wire[c], T.routed[c])
           /\ \A c \in Conns : T.rst[c] = "done" => (c \notin Range(T.clients) /\ T.pol[c] = "gone")
           /\ NoDeliveryAfterEnd

Step == /\ l <= Len(Tr)
        /\ l' = l + 1 /\ UNCHANGED tid
        /\ Ev.raised = ""
        /\ \/ Ev.op = "accept" /\ Accept(Ev.c, Ev.k)
           \/ Ev.op = "feed" /\ Feed(Ev.c, <<Ev.it, Ev.id>>)
           \/ Ev.op = "dsend" /\ DeviceSend(Ev.id) /\ OthersServed(Ev.id)
           \/ Ev.op = "csend" /\ ClientSend(Ev.c, Ev.id)
           \/ Ev.op = "complete" /\ Complete(Ev.c, Ev.i, Ev.fail = 1)
           \/ Ev.op = "tick" /\ Tick
        /\ ObsOK
        /\ PropsOK
TraceSpec == TraceInit /\ [][Step]_<<S, tid, l>>
Progress == TLCSet(tid, IF TLCGet(tid) > l THEN TLCGet(tid) ELSE l)
Bad == {t \in 1..N : TLCGet(t) # Len(Traces[t]) + 1}
Accepted == /\ PrintT(<<"BATCH", N>>)
            /\ \A t \in Bad : PrintT(<<"REJECT", t, TLCGet(t)>>)
            /\ Bad = {}
=============================================================================
