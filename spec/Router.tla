------------------------------- MODULE Router -------------------------------
(* indi/routing/router.py: device list, client list, per-client per-device BLOB policy and the
   fan-out of one message.  One action per public method; ProcessMessage is written as the two
   loops of the code (devices, then clients).  The declarative properties C04 / C05 are stated
   separately on the observation variables `last` (the message just processed) and `dlv`
   (the deliveries it caused) and checked as action properties on every transition.

   AsIs = TRUE switches the delivery test to the one of the unrepaired code (defect D10);
   it is FALSE in every claimed check and TRUE only in the anti-vacuity self-test. *)
EXTENDS IndiTypes, TLC

CONSTANTS ClientIds,     \* identities of client endpoints
          DevIds,        \* identities of device endpoints
          Names,         \* device names that messages / enableBLOB may carry
          NoName,        \* the value standing for "no device attribute"
          NoSender,      \* the value standing for "sender not given"
          AsIs

VARIABLES accept,   \* DevIds -> Names \cup {"*"}: what a device endpoint accepts ("*" = catch-all)
          devs,     \* registered device endpoints, registration order
          clients,  \* registered client endpoints, registration order
          policy,   \* registered client -> (device name -> "unset" | BlobEnableVocab)
          last,     \* observation: the operation just performed
          dlv       \* observation: deliveries of that operation, in code order: <<"dev"|"cli", id>>

vars == <<accept, devs, clients, policy, last, dlv>>
core == <<accept, devs, clients, policy>>

MsgNames == Names \cup {NoName}
Senders  == ClientIds \cup DevIds \cup {NoSender}
Range(s) == {s[i] : i \in DOMAIN s}
Unset    == [n \in Names |-> "unset"]

TypeOK == /\ devs \in Seq(DevIds) /\ clients \in Seq(ClientIds)
          /\ DOMAIN policy \subseteq ClientIds
          /\ \A c \in DOMAIN policy : policy[c] \in [Names -> {"unset"} \cup BlobEnableVocab]

InitWith(acc) == /\ accept = acc /\ devs = <<>> /\ clients = <<>> /\ policy = <<>>
                 /\ last = [op |-> "init"] /\ dlv = <<>>

-----------------------------------------------------------------------------
(* Driver.accepts / Proxy.accepts *)
Accepts(d, n) == accept[d] = "*" \/ n = NoName \/ accept[d] = n

(* blob_routing.get(client, {}).get(device_name, DEFAULT) *)
Pol(c, n) == IF c \in DOMAIN policy /\ n \in Names THEN policy[c][n] ELSE "unset"

(* the delivery test as the code writes it (router.py: is_blob / client_blob_policy) *)
Deliver(pol, kind) ==
  IF AsIs
  THEN \* unrepaired code: is_blob tested newBLOBVector, non-BLOB delivery required Never
       \/ kind = "newBLOBVector" /\ pol \in {"Also", "Only"}
       \/ kind # "newBLOBVector" /\ pol \in {"unset", "Never"}
  ELSE \/ IsBlobUpdate(kind) /\ pol \in {"Also", "Only"}
       \/ ~IsBlobUpdate(kind) /\ pol \in {"unset", "Never", "Also"}

RegisterDevice(d) ==
  /\ d \notin Range(devs)                     \* double registration is outside the properties
  /\ devs' = Append(devs, d)
  /\ last' = [op |-> "regdev", d |-> d] /\ dlv' = <<>>
  /\ UNCHANGED <<accept, clients, policy>>

RegisterClient(c) ==
  /\ c \notin Range(clients)
  /\ clients' = Append(clients, c)
  /\ policy' = [x \in DOMAIN policy \cup {c} |-> IF x = c THEN Unset ELSE policy[x]]
  /\ last' = [op |-> "regcli", c |-> c] /\ dlv' = <<>>
  /\ UNCHANGED <<accept, devs>>

UnregisterClient(c) ==
  /\ clients' = SelectSeq(clients, LAMBDA x : x # c)
  /\ policy' = [x \in DOMAIN policy \ {c} |-> policy[x]]
  /\ last' = [op |-> "unreg", c |-> c] /\ dlv' = <<>>
  /\ UNCHANGED <<accept, devs>>

(* the two loops of process_message as functions of the registry: who is handed a message of kind k, device attribute n,
   sent by s, under policy table pol *)
ToDevOf(ds, s, k, n) == IF FromClient(k) THEN SelectSeq(ds, LAMBDA d : d # s /\ Accepts(d, n)) ELSE <<>>
ToCliOf(cs, pol, s, k, n) ==
  LET polOf(c) == IF c \in DOMAIN pol /\ n \in Names THEN pol[c][n] ELSE "unset"
  IN IF FromDevice(k) THEN SelectSeq(cs, LAMBDA c : c # s /\ Deliver(polOf(c), k)) ELSE <<>>
(* process_message(message, sender): kind k, device attribute n, enableBLOB value v *)
ProcessMessage(s, k, n, v) ==
  LET pol1 == IF k = "enableBLOB" /\ s \in DOMAIN policy /\ n \in Names
              THEN [policy EXCEPT ![s][n] = v] ELSE policy
      toDev == ToDevOf(devs, s, k, n)
      toCli == ToCliOf(clients, pol1, s, k, n)
  IN /\ policy' = pol1
     /\ dlv' = [i \in 1..Len(toDev) |-> <<"dev", toDev[i]>>] \o [i \in 1..Len(toCli) |-> <<"cli", toCli[i]>>]
     /\ last' = [op |-> "msg", s |-> s, k |-> k, n |-> n, v |-> v]
     /\ UNCHANGED <<accept, devs, clients>>

Next ==
  \/ \E d \in DevIds : RegisterDevice(d)
  \/ \E c \in ClientIds : RegisterClient(c) \/ UnregisterClient(c)
  \/ \E s \in Senders, k \in AllKinds, n \in MsgNames :
        IF k = "enableBLOB"
        THEN n \in Names /\ \E v \in BlobEnableVocab : ProcessMessage(s, k, n, v)
        ELSE ProcessMessage(s, k, n, "none")

-----------------------------------------------------------------------------
(* Declarative statements of C04 and C05, on the primed observation variables. *)
Count(seq, x) == Cardinality({i \in DOMAIN seq : seq[i] = x})
IsMsg == last'.op = "msg"

\* C04: a client message is handed exactly once to every registered device that accepts its device
\* name (all devices when none is named), to no other device, never back to its sender.
ToDevices ==
  IsMsg => \A d \in DevIds :
     Count(dlv', <<"dev", d>>) =
        IF FromClient(last'.k) /\ d \in Range(devs) /\ d # last'.s
           /\ (accept[d] = "*" \/ last'.n = NoName \/ accept[d] = last'.n)
        THEN 1 ELSE 0
\* C04: device-bound kinds are never forwarded to clients; only getProperties is relayed.
NoLeak ==
  IsMsg /\ FromClient(last'.k) /\ last'.k # "getProperties" =>
     \A c \in ClientIds : Count(dlv', <<"cli", c>>) = 0
\* C05: a device message reaches every registered client other than the sender exactly once,
\* subject to that client's latest enableBLOB setting for that device.
FanOut ==
  IsMsg => \A c \in ClientIds :
     Count(dlv', <<"cli", c>>) =
        IF FromDevice(last'.k) /\ c \in Range(clients) /\ c # last'.s
           /\ Matrix(Pol(c, last'.n), IsBlobUpdate(last'.k))
        THEN 1 ELSE 0
\* C05: a policy set by one client for one device changes that entry only
Independence ==
  IsMsg => \A c \in DOMAIN policy : \A n \in Names :
     policy'[c][n] # policy[c][n] =>
        /\ last'.k = "enableBLOB" /\ c = last'.s /\ n = last'.n /\ policy'[c][n] = last'.v
EnableTakesEffect ==
  IsMsg /\ last'.k = "enableBLOB" /\ last'.s \in Range(clients) /\ last'.n \in Names =>
     policy'[last'.s][last'.n] = last'.v
\* C05 / C18: unregistering forgets the client and its settings; a (re)registered client starts fresh
Forgotten == last'.op = "unreg" => last'.c \notin Range(clients') /\ last'.c \notin DOMAIN policy'
Fresh     == last'.op = "regcli" => policy'[last'.c] = Unset /\ Count(clients', last'.c) = 1
\* registration state is not touched by message processing
MsgKeepsRegistry == IsMsg => devs' = devs /\ clients' = clients /\ DOMAIN policy' = DOMAIN policy
\* the registry and the policy table have the same clients (used by C18)
KeysAreClients == DOMAIN policy = Range(clients)

AllRouterProps == ToDevices /\ NoLeak /\ FanOut /\ Independence /\ EnableTakesEffect
                  /\ Forgotten /\ Fresh /\ MsgKeepsRegistry
=============================================================================
