------------------------------ MODULE MC_Device ------------------------------
(* Bounded instances of Device.tla.
   SwitchSpec  (C09): one switch vector, every rule x 1..MaxN switches x every initial configuration; full reachability.
   GenSpec     (C06 C07 C12 C14): the two-device deployment GenD, every operation sequence up to MaxDepth. *)
EXTENDS Device
CONSTANTS MaxN, MaxDepth
VARIABLES dep, S, op
mcvars == <<dep, S, op>>

Names(n) == [i \in 1..n |-> CASE i = 1 -> "s1" [] i = 2 -> "s2" [] i = 3 -> "s3" [] i = 4 -> "s4" [] i = 5 -> "s5"]
SwitchD(rule, n, ini) ==
  [vecs |-> << [dev |-> "A", name |-> "SW", kind |-> "switch", rule |-> rule, grp |-> 1, elems |-> Names(n), een |-> [i \in 1..n |-> TRUE]] >>,
   grps |-> << [dev |-> "A", name |-> "G"] >>, hs |-> <<>>, devorder |-> <<"A">>,
   val0 |-> <<ini>>, vst0 |-> <<"Ok">>, ven0 |-> <<TRUE>>, gen0 |-> <<TRUE>>]
SwitchInit == \E rule \in {"OneOfMany", "AtMostOne", "AnyOfMany"} : \E n \in 1..MaxN : \E ini \in [1..n -> {On, Off}] :
                 dep = SwitchD(rule, n, ini) /\ S = InitState(dep) /\ op = [o |-> "init"]
Children(n, k) == UNION { [1..m -> (Range(Names(n)) \X {On, Off})] : m \in 1..k }
WithOk(ch) == [i \in DOMAIN ch |-> <<ch[i][1], ch[i][2], TRUE>>]
SwitchNext ==
  LET n == Len(dep.vecs[1].elems) IN
  \/ \E e \in 1..n, x \in {On, Off} : S' = OpAssign(dep, S, 1, e, x) /\ op' = [o |-> "assign", v |-> 1, e |-> e, x |-> x]
  \/ \E e \in 1..n, x \in {On, Off} : S' = OpAssignFail(dep, S, 1, e, x) /\ op' = [o |-> "assignfail", v |-> 1, e |-> e, x |-> x]
  \/ \E ch \in Children(n, IF n <= 3 THEN 3 ELSE 2) : S' = OpNewVector(dep, S, "A", "SW", WithOk(ch)) /\ op' = [o |-> "new", ch |-> ch]
  \/ \E names \in SUBSET Range(Names(n)) : S' = OpSetSelected(dep, S, 1, names) /\ op' = [o |-> "sel", names |-> names]
SwitchSpec == SwitchInit /\ [][SwitchNext /\ UNCHANGED dep]_mcvars
P_RulePreserved == [][RulePreserved(dep, S, S')]_mcvars
P_PubRuleOK     == [][PubRuleOK(dep, S, S')]_mcvars
P_AssignOnOK    == [][op'.o \in {"assign", "assignfail"} => AssignOnOK(dep, S, S', op'.v, op'.e, op'.x)]_mcvars
P_SelectOnOK    == [][op'.o = "sel" => SelectOnOK(dep, S', 1, op'.names)]_mcvars
P_SwitchOneOK   == [][op'.o \in {"assign", "assignfail"} => SwitchOneOK(dep, S, S', op'.v, op'.e, op'.x)]_mcvars
P_NoRaise       == [][op'.o # "assignfail" => ~S'.raised]_mcvars
View == <<dep, S.val>>

-----------------------------------------------------------------------------
GenD ==
  [vecs |-> <<
     [dev |-> "A", name |-> "TXT", kind |-> "text",   rule |-> "", grp |-> 1, elems |-> <<"a", "b">>, een |-> <<TRUE, TRUE>>],
     [dev |-> "A", name |-> "SW",  kind |-> "switch", rule |-> "OneOfMany", grp |-> 1, elems |-> <<"s1", "s2">>, een |-> <<TRUE, TRUE>>],
     [dev |-> "A", name |-> "NUM", kind |-> "number", rule |-> "", grp |-> 1, elems |-> <<"n", "m">>, een |-> <<TRUE, FALSE>>],
     [dev |-> "A", name |-> "IMG", kind |-> "blob",   rule |-> "", grp |-> 2, elems |-> <<"img">>, een |-> <<TRUE>>],
     [dev |-> "B", name |-> "TXT", kind |-> "text",   rule |-> "", grp |-> 3, elems |-> <<"a">>, een |-> <<TRUE>>],
     [dev |-> "B", name |-> "LGT", kind |-> "light",  rule |-> "", grp |-> 3, elems |-> <<"l">>, een |-> <<TRUE>>] >>,
   grps |-> << [dev |-> "A", name |-> "MAIN"], [dev |-> "A", name |-> "AUX"], [dev |-> "B", name |-> "MAIN"] >>,
   hs |-> << [v |-> 1, e |-> 1, ev |-> "W", coro |-> FALSE, veto |-> FALSE, refresh |-> NoRefresh],
             [v |-> 1, e |-> 1, ev |-> "W", coro |-> TRUE,  veto |-> FALSE, refresh |-> NoRefresh],
             [v |-> 1, e |-> 1, ev |-> "C", coro |-> FALSE, veto |-> FALSE, refresh |-> NoRefresh],
             [v |-> 1, e |-> 2, ev |-> "C", coro |-> TRUE,  veto |-> FALSE, refresh |-> NoRefresh],
             [v |-> 3, e |-> 1, ev |-> "W", coro |-> FALSE, veto |-> TRUE,  refresh |-> NoRefresh],
             [v |-> 2, e |-> 1, ev |-> "C", coro |-> FALSE, veto |-> FALSE, refresh |-> NoRefresh],
             [v |-> 5, e |-> 1, ev |-> "R", coro |-> FALSE, veto |-> FALSE, refresh |-> "fresh"] >>,
   devorder |-> <<"A", "B">>,
   val0 |-> << <<"x", "x">>, <<On, Off>>, <<"n1", "n1">>, <<None>>, <<"x">>, <<"Ok">> >>,
   vst0 |-> <<"Ok", "Ok", "Idle", "Ok", "Ok", "Ok">>, ven0 |-> <<TRUE, TRUE, TRUE, TRUE, TRUE, FALSE>>, gen0 |-> <<TRUE, FALSE, TRUE>>]
Dom(k) == CASE k = "text" -> {"x", "y"} [] k = "number" -> {"n1", "n2"} [] k = "switch" -> {On, Off, "Maybe"}
            [] k = "light" -> {"Ok", "Busy", "Blue"} [] k = "blob" -> {"b1", "b2"}
GenInit == dep = GenD /\ S = InitState(GenD) /\ op = [o |-> "init"]
ElemNames == {"a", "b", "s1", "s2", "n", "img", "l", "zz"}
Kids == { <<>> } \cup { <<c>> : c \in ElemNames \X {"x", "y", On, Off, "n2", "b1", "Busy"} \X BOOLEAN }
        \cup { <<c1, c2>> : c1 \in {<<"a", "y", TRUE>>, <<"s2", On, TRUE>>, <<"zz", "x", TRUE>>}, c2 \in {<<"b", "y", TRUE>>, <<"a", "x", TRUE>>, <<"s1", On, TRUE>>, <<"a", "y", FALSE>>} }
GenNext ==
  \/ \E v \in DOMAIN dep.vecs : \E e \in DOMAIN dep.vecs[v].elems : \E x \in Dom(dep.vecs[v].kind) :
        \/ S' = OpAssign(dep, S, v, e, x) /\ op' = [o |-> "assign", v |-> v, e |-> e, x |-> x]
        \/ S' = OpSetValue(dep, S, v, e, x) /\ op' = [o |-> "setvalue", v |-> v, e |-> e, x |-> x]
  \/ \E t \in {"A", "B", None, "U"}, n \in {"TXT", "SW", "NUM", "IMG", "LGT", "NOPE"}, ch \in Kids :
        S' = OpNewVector(dep, S, t, n, ch) /\ op' = [o |-> "new", t |-> t, n |-> n, ch |-> ch]
  \/ \E t \in {"A", "B", None, "U"}, n \in {"TXT", "IMG", "LGT", "NOPE", None} :
        S' = OpGetProperties(dep, S, t, n) /\ op' = [o |-> "get", t |-> t, n |-> n]
  \/ \E v \in {1, 3} : \E x \in Dom(dep.vecs[v].kind) : S' = OpReset(dep, S, v, 1, x) /\ op' = [o |-> "reset", v |-> v, e |-> 1, x |-> x]
  \/ \E v \in {1, 4}, st \in {"Busy", "Ok"} : S' = OpSetState(dep, S, v, st) /\ op' = [o |-> "state", v |-> v, st |-> st]
  \/ \E v \in {1, 6}, b \in BOOLEAN : S' = OpVecEnabled(dep, S, v, b) /\ op' = [o |-> "ven", v |-> v, b |-> b]
  \/ \E g \in {2}, b \in BOOLEAN : S' = OpGroupEnabled(dep, S, g, b) /\ op' = [o |-> "gen", g |-> g, b |-> b]
  \/ \E names \in SUBSET {"s1", "s2"} : S' = OpSetSelected(dep, S, 2, names) /\ op' = [o |-> "sel", names |-> names]
  \/ S.tasks # <<>> /\ S' = OpRunTask(dep, S) /\ op' = [o |-> "task"]
GenSpec == GenInit /\ [][GenNext /\ UNCHANGED dep]_mcvars
Depth == TLCGet("level") <= MaxDepth /\ Len(S.tasks) <= 3

IsValidWrite(o) == /\ o.o = "new" /\ VecOf(dep, IF o.t = None THEN "A" ELSE o.t, o.n) # 0 /\ o.ch # <<>>
                   /\ \A i \in DOMAIN o.ch : o.ch[i][3]
NoVetoOn(v) == ~\E h \in DOMAIN dep.hs : dep.hs[h].v = v /\ dep.hs[h].veto
NoReadOn(v) == ~\E h \in DOMAIN dep.hs : dep.hs[h].v = v /\ dep.hs[h].ev = "R"
KindOK(v, ch) == \A i \in DOMAIN ch : ch[i][1] \in Range(dep.vecs[v].elems) /\ TypeOK(dep, v, ch[i][2])
P_Frame   == [][op'.o = "new" => FrameOK(dep, S, S', op'.t, op'.n)]_mcvars
P_Taken   == [][(op'.o = "new" /\ op'.t \in {"A", "B"} /\ VecOf(dep, op'.t, op'.n) # 0 /\ (\A i \in DOMAIN op'.ch : op'.ch[i][3])
                 /\ KindOK(VecOf(dep, op'.t, op'.n), op'.ch) /\ NoVetoOn(VecOf(dep, op'.t, op'.n)) /\ NoReadOn(VecOf(dep, op'.t, op'.n)))
                => TakenOK(dep, S, S', VecOf(dep, op'.t, op'.n), op'.ch)]_mcvars
\* outside a write, what a driver publishes is what its elements hold afterwards (plain Read handlers have refreshed them first)
P_PubCurrent == [][op'.o \in {"state", "get", "ven", "gen", "reset"} =>
                     \A i \in DOMAIN S'.pub : LET m == S'.pub[i] IN
                        (m.v # 0 /\ (m.t = "set" \/ (m.t = "def" /\ dep.vecs[m.v].kind # "blob"))) =>
                           \A k \in DOMAIN m.els : \A e \in DOMAIN dep.vecs[m.v].elems :
                              dep.vecs[m.v].elems[e] = m.els[k][1] => m.els[k][2] = S'.val[m.v][e]]_mcvars
P_Robust  == [][op'.o \in {"new", "get", "task"} => ~S'.raised]_mcvars
P_Reply   == [][op'.o = "get" => ReplyExact(dep, S, S', op'.t, op'.n)]_mcvars
P_Write   == [][(op'.o \in {"assign", "setvalue"} /\ NoReadOn(op'.v)) => WriteContract(dep, S, S', op'.v, op'.e, op'.x, op'.o = "setvalue")]_mcvars
P_Rule    == [][RulePreserved(dep, S, S') /\ PubRuleOK(dep, S, S')]_mcvars
(* probes *)
Probe_Veto      == [][~(op'.o = "setvalue" /\ op'.v = 3 /\ S'.hlog # <<>>)]_mcvars
Probe_CoroTask  == [][~(op'.o = "task")]_mcvars
Probe_DelReply  == [][~(op'.o = "get" /\ \E i \in DOMAIN S'.pub : S'.pub[i].t = "del")]_mcvars
Probe_Refresh   == [][~(op'.o = "get" /\ \E i \in DOMAIN S'.pub : S'.pub[i].t = "def" /\ \E k \in DOMAIN S'.pub[i].els : S'.pub[i].els[k][2] = "fresh")]_mcvars
=============================================================================
