SPECIFICATION MCSpec
CONSTANTS
  ClientIds = {"c1", "c2"}
  DevIds = {"d1", "d2", "d3"}
  Names = {"A", "B"}
  NoName = "none"
  NoSender = "nobody"
  AsIs = FALSE
  AcceptInit <- AcceptQuick
VIEW View
INVARIANT TypeOK
INVARIANT KeysAreClients
PROPERTY P_ToDevices
PROPERTY P_NoLeak
PROPERTY P_FanOut
PROPERTY P_Independence
PROPERTY P_EnableTakes
PROPERTY P_Forgotten
PROPERTY P_Fresh
PROPERTY P_MsgKeeps
