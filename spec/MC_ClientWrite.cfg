SPECIFICATION Spec
CONSTANTS
  MaxDepth = 7
CONSTRAINT Depth
VIEW View
PROPERTY P_SubmitExact
PROPERTY P_EditSilent
PROPERTY P_PendingSurvivesUpdate
