--------------------------- MODULE MC_BufferAlgo ---------------------------
(* Bounded instance: every concatenation of <= MaxSegs catalogue segments x every cut set of <= MaxCuts
   positions x every threshold in Thresholds; layout-based statements of C02 / C11. *)
EXTENDS BufferAlgo, FiniteSetsExt, Framing
CONSTANTS MaxSegs, MaxCuts, Thresholds, CatLimit
ThrQuick == {Disabled, 8}
ThrThorough == {Disabled, 4, 8, 12}
ThrDisabled == {Disabled}
Chars(str) == [i \in 1..Len(str) |-> SubSeq(str, i, i)]
(* catalogue: cls = "msg" valid message (possibly with surrounding white space), anything else is junk of some kind *)
FullCat == <<
  [cls |-> "msg",   s |-> Chars("<k/>")],
  [cls |-> "msg",   s |-> Chars("<k>x</k>")],
  [cls |-> "junk",  s |-> Chars("x")],
  [cls |-> "trunc", s |-> Chars("<k/")],
  [cls |-> "junk",  s |-> Chars("<u/>")],
  [cls |-> "msg",   s |-> Chars("<k/>n")],
  [cls |-> "open",  s |-> Chars("<k>")],
  [cls |-> "msg",   s |-> Chars("<k><c/></k>")],
  [cls |-> "imit",  s |-> Chars("<kx/>")],
  [cls |-> "junk",  s |-> Chars(">")],
  [cls |-> "msg",   s |-> Chars("n<k>x></k>")],
  [cls |-> "junk",  s |-> Chars("<")],
  [cls |-> "close", s |-> Chars("</k>")],
  [cls |-> "trunc", s |-> Chars("<k>x</")],
  [cls |-> "msg",   s |-> Chars("<k><c>x</c><c/></k>")],
  [cls |-> "junk",  s |-> Chars("<u>x</u>")],
  [cls |-> "msg",   s |-> Chars("<kn/>")],
  [cls |-> "junk",  s |-> Chars("/")],
  [cls |-> "badkid", s |-> Chars("<k><u/></k>")],
  [cls |-> "junk",  s |-> Chars("n")]
>>
Cat == SubSeq(FullCat, 1, CatLimit)

VARIABLES sel,         \* the catalogue indices the stream was built from
          lay          \* layout computed once in Init: [msgs: valid messages <<first,last>> in order, clean: BOOLEAN]
mcvars == <<vars, sel, lay>>

RECURSIVE Concat(_)
Concat(ss) == IF ss = <<>> THEN <<>> ELSE Head(ss) \o Concat(Tail(ss))
Sels == UNION { [1..n -> 1..Len(Cat)] : n \in 1..MaxSegs }

(* layout of a selection *)
RECURSIVE SegStartOf(_, _)
SegStartOf(sl, i) == IF i = 1 THEN 1 ELSE SegStartOf(sl, i - 1) + Len(Cat[sl[i - 1]].s)
LeadN(t) == Len(t) - Len(StripL(t))
TrailN(t) == Len(t) - Len(StripR(t))
MsgRangeOf(sl, i) == <<SegStartOf(sl, i) + LeadN(Cat[sl[i]].s), SegStartOf(sl, i) + Len(Cat[sl[i]].s) - 1 - TrailN(Cat[sl[i]].s)>>
RECURSIVE MsgsOf(_, _)
MsgsOf(sl, i) == IF i > Len(sl) THEN <<>>
                 ELSE (IF Cat[sl[i]].cls = "msg" THEN <<MsgRangeOf(sl, i)>> ELSE <<>>) \o MsgsOf(sl, i + 1)
\* junk does not imitate a protocol element: every "<k" of the stream is the start of one of its valid messages
CleanOf(st, ms) == \A p \in 1..(Len(st) - 1) :
                      (st[p] = "<" /\ st[p + 1] = "k") => \E j \in DOMAIN ms : ms[j][1] = p

\* all cut sets with at most MaxCuts (<= 3) positions, built directly (SUBSET of a 25-element set is too large)
CutSets(P) == {{}} \cup (IF MaxCuts >= 1 THEN { {a} : a \in P } ELSE {})
                   \cup (IF MaxCuts >= 2 THEN { {a, b} : a \in P, b \in P } ELSE {})
                   \cup (IF MaxCuts >= 3 THEN { {a, b, c} : a \in P, b \in P, c \in P } ELSE {})
MCInit == /\ sel \in Sels
          /\ stream = Concat([i \in DOMAIN sel |-> Cat[sel[i]].s])
          /\ lay = [msgs |-> MsgsOf(sel, 1), clean |-> CleanOf(stream, MsgsOf(sel, 1))]
          /\ cuts \in CutSets(1..(Len(stream) - 1))
          /\ thr \in Thresholds
          /\ fed = 0 /\ off = 0 /\ out = <<>> /\ pc = "idle" /\ iters = 0
MCNext == Next /\ UNCHANGED <<sel, lay>>
MCSpec == MCInit /\ [][MCNext]_mcvars

-----------------------------------------------------------------------------
(* the contract of Framing.tla, evaluated on the character-level model:
   layout messages as records, delivered slices mapped to message ids (0 = none of the stream's messages) *)
LayMsgs == [j \in DOMAIN lay.msgs |-> [id |-> j, first |-> lay.msgs[j][1], last |-> lay.msgs[j][2]]]
IdOf(sl) == IF \E j \in DOMAIN lay.msgs : lay.msgs[j] = sl THEN CHOOSE j \in DOMAIN lay.msgs : lay.msgs[j] = sl ELSE 0
DeliveredIds == [i \in DOMAIN out |-> IdOf(out[i])]
(* C02 + C11: lossless, ordered, prompt on clean streams; order, retention and recovery on any stream *)
Contract == pc = "idle" => FramingContract(LayMsgs, lay.clean, thr, fed, DeliveredIds, fed - off)
LosslessOrderedPrompt ==
  (pc = "idle" /\ lay.clean /\ Fits(LayMsgs, thr)) => CleanContract(LayMsgs, fed, DeliveredIds)
Recovers == pc = "idle" => RecoverContract(LayMsgs, thr, fed, DeliveredIds)
(* each delivered slice at most once *)
AtMostOnce == Len(out) >= 2 => out[Len(out) - 1] # out[Len(out)]

(* reachability probes (must be violated) *)
ProbeInv_FrontalCleanup == ~(pc = "loop" /\ thr # Disabled /\ fed - off > thr /\ FindDoc(stream, off, fed, 0) = 0)
ProbeInv_DirtyDelivered == ~(pc = "idle" /\ ~lay.clean /\ Len(out) >= 1)
ProbeInv_SplitMessage   == ~(pc = "idle" /\ fed < Len(stream) /\ fed - off > 2 /\ Len(out) >= 1)
ProbeInv_InvalidSkipped == ~(pc = "idle" /\ fed = Len(stream) /\ off = fed /\ ~lay.clean /\ Len(out) = Len(lay.msgs) /\ Len(out) >= 1)
=============================================================================
